/-
  Two more facts about the model of `HttpReader::read_chunks` under an arbitrary server:
  (1) every sum `offset + size` the reader forms is the end of a listed chunk, so - with
      `accepted_archive_ranges_fit_u64` - none of them can exceed 64 bits (the arithmetic the
      model does in `Nat` is the arithmetic the code does in `u64`);
  (2) bytes a server sends beyond what was asked for never change anything: not what is delivered,
      not what is requested (no surplus leaks into the next run).
-/
import Bita.Model.Readers
import Bita.Spec.Runs
import Bita.Proofs.HttpSafe
import Bita.Proofs.HttpTop

namespace Bita.Proofs
open Bita Bita.Spec

/-! ### what `drain` and `feed` do to the chunk list and to the open request -/

theorem drain_track : ∀ (cs : List ChunkOffset) (buf : Bytes) (adj : Nat)
    (req : Option (Nat × Nat × Nat)) (its : List Item) (st' : CR) (p : Bool),
    CR.drain cs buf adj req = (its, st', p) →
    (∀ x ∈ st'.chunks, x ∈ cs) ∧ (st'.req = req ∨ st'.req = none) := by
  intro cs
  induction cs with
  | nil =>
    intro buf adj req its st' p h
    simp only [CR.drain, Prod.mk.injEq] at h
    obtain ⟨_, rfl, _⟩ := h
    simp
  | cons c cs ih =>
    intro buf adj req its st' p h
    rw [CR.drain] at h
    split at h
    · split at h
      · simp only [Prod.mk.injEq] at h
        obtain ⟨_, rfl, _⟩ := h
        simp
      · dsimp only at h
        generalize hres : CR.drain cs (buf.drop c.size) (adj - 1)
          (if adj - 1 = 0 then none else req) = res at h
        obtain ⟨its1, st1, p1⟩ := res
        simp only [Prod.mk.injEq] at h
        obtain ⟨_, rfl, _⟩ := h
        obtain ⟨h1, h2⟩ := ih _ _ _ _ _ _ hres
        refine ⟨fun x hx => List.mem_cons_of_mem _ (h1 x hx), ?_⟩
        rcases h2 with h2 | h2
        · split at h2
          · exact Or.inr h2
          · exact Or.inl h2
        · exact Or.inr h2
    · simp only [Prod.mk.injEq] at h
      obtain ⟨_, rfl, _⟩ := h
      simp

theorem feed_track : ∀ (fs : List Bytes) (st : CR) (its : List Item) (st2 : CR),
    (CR.feed fs st = .runDone its st2 ∨ CR.feed fs st = .bodyDone its st2) →
    (∀ x ∈ st2.chunks, x ∈ st.chunks) ∧
    ∀ off2 size2 rl2, st2.req = some (off2, size2, rl2) →
      ∃ off size, st.req = some (off, size, rl2) ∧ off2 + size2 = off + size ∧ off ≤ off2 := by
  intro fs
  induction fs with
  | nil =>
    intro st its st2 h
    simp only [CR.feed, FeedRes.bodyDone.injEq, reduceCtorEq, false_or] at h
    obtain ⟨_, rfl⟩ := h
    exact ⟨fun x hx => hx, fun off2 size2 rl2 h => ⟨off2, size2, h, rfl, Nat.le_refl _⟩⟩
  | cons f fs ih =>
    intro st its st2 h
    rw [CR.feed] at h
    split at h
    · simp only [FeedRes.runDone.injEq, reduceCtorEq, or_false] at h
      obtain ⟨_, rfl⟩ := h
      exact ⟨fun x hx => hx, fun off2 size2 rl2 h => ⟨off2, size2, h, rfl, Nat.le_refl _⟩⟩
    · rename_i off size rl hreq
      dsimp only at h
      have hf := clipFrag_length size f
      generalize clipFrag size f = g at h hf
      generalize hres : CR.drain st.chunks (st.buf ++ g) st.adj
        (some (off + g.length, size - g.length, rl)) = res at h
      obtain ⟨its1, st1, p1⟩ := res
      obtain ⟨h1, h2⟩ := drain_track _ _ _ _ _ _ _ hres
      dsimp only at h
      split at h
      · simp at h
      · split at h
        · rename_i hnone
          simp only [FeedRes.runDone.injEq, reduceCtorEq, or_false] at h
          obtain ⟨_, rfl⟩ := h
          exact ⟨h1, fun off2 size2 rl2 h => by rw [hnone] at h; cases h⟩
        · rename_i q hq
          rw [hq] at h2
          generalize hfeed : CR.feed fs st1 = fr at h
          cases fr with
          | runDone its2 st3 =>
            simp only [FeedRes.runDone.injEq, reduceCtorEq, or_false] at h
            obtain ⟨_, rfl⟩ := h
            obtain ⟨k1, k2⟩ := ih st1 its2 st3 (Or.inl hfeed)
            refine ⟨fun x hx => h1 x (k1 x hx), ?_⟩
            intro off2 size2 rl2 he
            obtain ⟨off', size', e1, e2, e3⟩ := k2 off2 size2 rl2 he
            rcases h2 with h2 | h2
            · rw [e1] at hq; rw [← hq] at h2
              simp only [Option.some.injEq, Prod.mk.injEq] at h2
              obtain ⟨rfl, rfl, rfl⟩ := h2
              exact ⟨off, size, hreq, by omega, by omega⟩
            · cases h2
          | bodyDone its2 st3 =>
            simp only [FeedRes.bodyDone.injEq, reduceCtorEq, false_or] at h
            obtain ⟨_, rfl⟩ := h
            obtain ⟨k1, k2⟩ := ih st1 its2 st3 (Or.inr hfeed)
            refine ⟨fun x hx => h1 x (k1 x hx), ?_⟩
            intro off2 size2 rl2 he
            obtain ⟨off', size', e1, e2, e3⟩ := k2 off2 size2 rl2 he
            rcases h2 with h2 | h2
            · rw [e1] at hq; rw [← hq] at h2
              simp only [Option.some.injEq, Prod.mk.injEq] at h2
              obtain ⟨rfl, rfl, rfl⟩ := h2
              exact ⟨off, size, hreq, by omega, by omega⟩
            · cases h2
          | stop its2 => simp at h

/-! ### the position of the open request -/

/-- What every issued request `(offset, size)` satisfies, relative to the listed chunks `L`. -/
def ReqOK (L : List ChunkOffset) (q : Nat × Nat) : Prop :=
  (∃ c ∈ L, q.1 + q.2 = c.stop) ∧ (∃ c ∈ L, c.offset ≤ q.1) ∧ 1 ≤ q.2

/-- The chunks still to be handed out are listed chunks, and the open request (if any) ends at
the end of a listed chunk and starts at or after the start of one. -/
def Tracked (L : List ChunkOffset) (st : CR) : Prop :=
  (∀ x ∈ st.chunks, x ∈ L) ∧
  ∀ off size rl, st.req = some (off, size, rl) →
    (∃ c ∈ L, off + size = c.stop) ∧ (∃ c ∈ L, c.offset ≤ off)

theorem tracked_retry (L : List ChunkOffset) (chunks : List ChunkOffset) (buf : Bytes)
    (adj off size rl rl' : Nat) (h : Tracked L ⟨chunks, buf, adj, some (off, size, rl)⟩) :
    Tracked L ⟨chunks, buf, adj, some (off, size, rl')⟩ := by
  refine ⟨h.1, ?_⟩
  intro off2 size2 rl2 he
  simp only [Option.some.injEq, Prod.mk.injEq] at he
  obtain ⟨rfl, rfl, rfl⟩ := he
  exact h.2 _ _ rl rfl

theorem drain_tracked (L : List ChunkOffset) (st : CR) (its : List Item) (st' : CR) (p : Bool)
    (h : Tracked L st) (hd : CR.drain st.chunks st.buf st.adj st.req = (its, st', p)) :
    Tracked L st' := by
  obtain ⟨h1, h2⟩ := drain_track _ _ _ _ _ _ _ hd
  refine ⟨fun x hx => h.1 x (h1 x hx), ?_⟩
  intro off size rl he
  rcases h2 with h2 | h2
  · exact h.2 off size rl (by rw [← h2, he])
  · rw [h2] at he; cases he

theorem feed_tracked (L : List ChunkOffset) (fs : List Bytes) (st : CR) (its : List Item)
    (st2 : CR) (h : Tracked L st)
    (hf : CR.feed fs st = .runDone its st2 ∨ CR.feed fs st = .bodyDone its st2) :
    Tracked L st2 := by
  obtain ⟨h1, h2⟩ := feed_track fs st its st2 hf
  refine ⟨fun x hx => h.1 x (h1 x hx), ?_⟩
  intro off2 size2 rl2 he
  obtain ⟨off, size, e1, e2, e3⟩ := h2 off2 size2 rl2 he
  obtain ⟨⟨c, hc, k1⟩, ⟨d, hd, k2⟩⟩ := h.2 off size rl2 e1
  exact ⟨⟨c, hc, by omega⟩, ⟨d, hd, by omega⟩⟩

/-- A new request covers the head run: it starts at the first chunk's offset and ends at the stop
of the run's last chunk. -/
theorem ensureReq_tracked (L : List ChunkOffset) (retry : Nat) (st : CR) (h : Tracked L st) :
    Tracked L (CR.ensureReq retry st) := by
  obtain ⟨chunks, buf, adj, req⟩ := st
  cases req with
  | some q => exact h
  | none =>
    cases chunks with
    | nil => exact h
    | cons c cs =>
      obtain ⟨r, hr⟩ := headRun_fst c cs
      have happ := headRun_append c cs
      have hcont := headRun_contiguous c cs
      have hadj := adjacentReads_eq_headRun c cs
      generalize (headRun c cs).2 = rest at happ
      rw [hr] at happ hcont hadj
      have hcs : cs = r ++ rest := by simpa using happ.symm
      subst hcs
      have hl := drop_headD_getLast rest r c c
      have hstop := contiguous_getLast_stop c r hcont
      rw [List.cons_append] at hl
      rw [ensureReq_none, hadj, List.length_cons, Nat.add_sub_cancel, hl, hstop,
        Nat.add_sub_cancel_left]
      refine ⟨h.1, ?_⟩
      intro off size rl he
      simp only [Option.some.injEq, Prod.mk.injEq] at he
      obtain ⟨rfl, rfl, rfl⟩ := he
      have hmem : (c :: r).getLast (by simp) ∈ c :: (r ++ rest) := by
        have := List.getLast_mem (l := c :: r) (by simp)
        rw [← List.cons_append]
        exact List.mem_append_left _ this
      exact ⟨⟨_, h.1 _ hmem, hstop.symm⟩, ⟨c, h.1 c (by simp), Nat.le_refl _⟩⟩

theorem run_bounds (serve : Nat → Nat → Bytes) (retry : Nat) (L : List ChunkOffset) :
    ∀ (script : List Resp) (st : CR), Good st → Tracked L st →
      ∀ q ∈ (CR.run serve retry script st).reqs, ReqOK L q := by
  intro script
  induction script with
  | nil =>
    intro st hg ht
    obtain ⟨its0, st0, hd, hp, hcase⟩ := prep retry st hg
    have ht1 := ensureReq_tracked L retry st0 (drain_tracked L st its0 st0 false ht hd)
    rw [CR.run]
    dsimp only
    rw [hd]
    rcases hcase with h | ⟨hne, c, r, rest, buf, off, size, rl, he, hs, hrest, hb, hsz⟩
    · simp [h]
    · rw [he] at ht1
      obtain ⟨hq1, hq2⟩ := ht1.2 off size rl rfl
      have hok : ReqOK L (off, size) := ⟨hq1, hq2, hsz⟩
      have : ¬ (off = 0 ∧ size = 0) := by omega
      simp [hne, he, this, hok]
  | cons x s ih =>
    intro st hg ht
    obtain ⟨its0, st0, hd, hp, hcase⟩ := prep retry st hg
    have ht1 := ensureReq_tracked L retry st0 (drain_tracked L st its0 st0 false ht hd)
    rw [CR.run]
    dsimp only
    rw [hd]
    rcases hcase with h | ⟨hne, c, r, rest, buf, off, size, rl, he, hs, hrest, hb, hsz⟩
    · simp [h]
    · rw [he] at ht1
      obtain ⟨hq1, hq2⟩ := ht1.2 off size rl rfl
      have hok : ReqOK L (off, size) := ⟨hq1, hq2, hsz⟩
      have hz : ¬ (off = 0 ∧ size = 0) := by omega
      have hopen : ∀ rl', Open ⟨c :: (r ++ rest), buf, r.length + 1, some (off, size, rl')⟩ :=
        fun rl' => Open.mk c r rest buf off size rl' hs hrest hb
      cases x with
      | refuse =>
        by_cases hrl : rl = 0
        · simp [hne, he, hz, hrl, hok]
        · have := ih _ (Good.opened _ (hopen (rl - 1))) (tracked_retry L _ _ _ _ _ _ (rl - 1) ht1)
          simp [hne, he, hz, hrl, hok]
          exact fun a b => this (a, b)
      | full fr =>
        rcases feed_safe (splitBy fr (serve off size)) _ (hopen rl) with
          ⟨its, rest2, e, hp2, hr2⟩ | ⟨its, st2, e, hp2, ho2⟩
        · have := ih _ (Good.closed rest2 0 hr2) (feed_tracked L _ _ _ _ ht1 (Or.inl e))
          simp [hne, he, hz, e, hok]
          exact fun a b => this (a, b)
        · simp [hne, he, hz, e, hok]
      | part n fr cut =>
        rcases feed_safe (splitBy fr ((serve off size).take n)) _ (hopen rl) with
          ⟨its, rest2, e, hp2, hr2⟩ | ⟨its, st2, e, hp2, ho2⟩
        · have := ih _ (Good.closed rest2 0 hr2) (feed_tracked L _ _ _ _ ht1 (Or.inl e))
          simp [hne, he, hz, e, hok]
          exact fun a b => this (a, b)
        · have ht2 := feed_tracked L _ _ _ _ ht1 (Or.inr e)
          cases ho2 with
          | mk c2 r2 rest2 buf2 off2 size2 rl2 hs2 hrest2 hb2 =>
            cases cut with
            | false => simp [hne, he, hz, e, hok]
            | true =>
              by_cases hrl : rl2 = 0
              · simp [hne, he, hz, e, hrl, hok]
              · have := ih _ (Good.opened _ (Open.mk c2 r2 rest2 buf2 off2 size2 (rl2 - 1)
                  hs2 hrest2 hb2)) (tracked_retry L _ _ _ _ _ _ (rl2 - 1) ht2)
                simp [hne, he, hz, e, hrl, hok]
                exact fun a b => this (a, b)

/-- **Request ends are chunk ends.**  For any server behaviour, retry budget and failure script: every
range request issued ends exactly at the end of one of the listed chunks and starts at or after
the start of one of them. -/
theorem http_request_ends_are_chunk_ends (serve : Nat → Nat → Bytes) (retry : Nat) (script : List Resp)
    (chunks : List ChunkOffset) (hsize : ∀ c ∈ chunks, 1 ≤ c.size) :
    ∀ q ∈ (httpReadChunks serve retry script chunks).reqs,
      (∃ c ∈ chunks, q.1 + q.2 = c.stop) ∧ (∃ c ∈ chunks, c.offset ≤ q.1) ∧ 1 ≤ q.2 := by
  exact run_bounds serve retry chunks script _ (Good.closed chunks 0 hsize)
    ⟨fun x hx => hx, fun _ _ _ he => by cases he⟩

/-! ### surplus bytes -/

/-- A fragment that holds everything still requested and more is cut back to what is requested -
*because* the truncation is in the source (`Gen.httpFragmentClipped`). -/
theorem clipFrag_append (size : Nat) (body e : Bytes) (h : body.length = size) :
    clipFrag size (body ++ e) = body := by
  unfold clipFrag
  have hfact : Gen.httpFragmentClipped = true := by decide
  split
  · rw [← h]; simp
  · rename_i hn
    have h1 : ¬ size < (body ++ e).length := fun hlt => hn ⟨hfact, hlt⟩
    have h2 : e = [] := by
      simp only [List.length_append] at h1
      exact List.length_eq_zero_iff.1 (by omega)
    simp [h2]

theorem feed_cons_clip (f : Bytes) (fs : List Bytes) (chunks : List ChunkOffset) (buf : Bytes)
    (adj off size rl : Nat) (its : List Item) (st' : CR)
    (hd : CR.drain chunks (buf ++ clipFrag size f) adj
      (some (off + (clipFrag size f).length, size - (clipFrag size f).length, rl)) =
        (its, st', false)) :
    CR.feed (f :: fs) ⟨chunks, buf, adj, some (off, size, rl)⟩ =
      match st'.req with
      | none => FeedRes.runDone its st'
      | some _ =>
        match CR.feed fs st' with
        | FeedRes.runDone its2 st2 => FeedRes.runDone (its ++ its2) st2
        | FeedRes.bodyDone its2 st2 => FeedRes.bodyDone (its ++ its2) st2
        | FeedRes.stop its2 => FeedRes.stop (its ++ its2) := by
  rw [CR.feed]
  dsimp only
  rw [hd]
  simp only [Bool.false_eq_true, if_false]
  cases st'.req with
  | none => rfl
  | some q => dsimp only; cases CR.feed fs st' <;> rfl

/-- The fragment that completes the run: nothing after it is looked at, and of the fragment
itself only the clipped part. -/
theorem feed_last (c : ChunkOffset) (r rest : List ChunkOffset) (buf : Bytes) (off size rl : Nat)
    (hs : ∀ x ∈ c :: r, 1 ≤ x.size) (hrest : ∀ x ∈ rest, 1 ≤ x.size)
    (hb : buf.length + size = total (c :: r))
    (f f' : Bytes) (fs fs' : List Bytes) (hclip : clipFrag size f' = clipFrag size f)
    (hlen : (clipFrag size f).length = size) :
    CR.feed (f :: fs) ⟨c :: (r ++ rest), buf, r.length + 1, some (off, size, rl)⟩ =
      CR.feed (f' :: fs') ⟨c :: (r ++ rest), buf, r.length + 1, some (off, size, rl)⟩ := by
  obtain ⟨its, st', hd, hp, hcase⟩ := drain_safe rest hrest
    (off + (clipFrag size f).length, size - (clipFrag size f).length, rl) r c
    (buf ++ clipFrag size f) hs (by simp only [List.length_append]; omega)
  rw [List.length_cons] at hd
  have hd' := hd
  rw [← hclip] at hd'
  rw [feed_cons_clip f fs _ _ _ _ _ _ its st' hd, feed_cons_clip f' fs' _ _ _ _ _ _ its st' hd']
  rcases hcase with ⟨_, h2⟩ | ⟨h1, _⟩
  · subst h2; rfl
  · simp only [List.length_append] at h1; omega

/-- Feeding `body ++ e` (cut into fragments of the given sizes) into a reader that still wants
exactly `body.length ≥ 1` bytes does what feeding `body` (cut by the same sizes) does. -/
theorem feed_surplus (rest : List ChunkOffset) (hrest : ∀ x ∈ rest, 1 ≤ x.size) (rl : Nat) :
    ∀ (frags : List Nat) (body e : Bytes) (c : ChunkOffset) (r : List ChunkOffset) (buf : Bytes)
      (off size : Nat),
      (∀ x ∈ c :: r, 1 ≤ x.size) → buf.length + size = total (c :: r) → 1 ≤ size →
      body.length = size →
      CR.feed (splitBy frags (body ++ e))
          ⟨c :: (r ++ rest), buf, r.length + 1, some (off, size, rl)⟩ =
        CR.feed (splitBy frags body)
          ⟨c :: (r ++ rest), buf, r.length + 1, some (off, size, rl)⟩ := by
  intro frags
  induction frags with
  | nil =>
    intro body e c r buf off size hs hb hsz hbody
    have hne : body ≠ [] := by
      intro h; rw [h] at hbody; simp only [List.length_nil] at hbody; omega
    have h1 : splitBy [] (body ++ e) = [body ++ e] := by simp [splitBy, hne]
    have h2 : splitBy [] body = [body] := by simp [splitBy, hne]
    rw [h1, h2]
    have hc1 := clipFrag_append size body e hbody
    have hc2 := clipFrag_append size body [] hbody
    rw [List.append_nil] at hc2
    exact feed_last c r rest buf off size rl hs hrest hb _ _ _ _ (by rw [hc1, hc2])
      (by rw [hc1]; exact hbody)
  | cons n ns ih =>
    intro body e c r buf off size hs hb hsz hbody
    have hne : body ≠ [] := by
      intro h; rw [h] at hbody; simp only [List.length_nil] at hbody; omega
    have h1 : splitBy (n :: ns) (body ++ e) =
        (body ++ e).take (max n 1) :: splitBy ns ((body ++ e).drop (max n 1)) := by
      simp [splitBy, hne]
    have h2 : splitBy (n :: ns) body =
        body.take (max n 1) :: splitBy ns (body.drop (max n 1)) := by
      simp [splitBy, hne]
    rw [h1, h2]
    have hm1 : 1 ≤ max n 1 := by omega
    generalize max n 1 = m at hm1
    by_cases hlt : m < size
    · have t1 : (body ++ e).take m = body.take m := List.take_append_of_le_length (by omega)
      have t2 : (body ++ e).drop m = body.drop m ++ e := List.drop_append_of_le_length (by omega)
      rw [t1, t2]
      have hfl : (body.take m).length = m := by simp only [List.length_take]; omega
      have hclip : clipFrag size (body.take m) = body.take m := by
        unfold clipFrag; rw [if_neg (by omega)]
      obtain ⟨its, st', hd, hp, hcase⟩ := drain_safe rest hrest (off + m, size - m, rl) r c
        (buf ++ body.take m) hs (by simp only [List.length_append]; omega)
      rw [List.length_cons] at hd
      have hd' : CR.drain (c :: (r ++ rest)) (buf ++ clipFrag size (body.take m)) (r.length + 1)
          (some (off + (clipFrag size (body.take m)).length,
            size - (clipFrag size (body.take m)).length, rl)) = (its, st', false) := by
        rw [hclip, hfl]; exact hd
      rw [feed_cons_clip _ _ _ _ _ _ _ _ its st' hd', feed_cons_clip _ _ _ _ _ _ _ _ its st' hd']
      rcases hcase with ⟨h1, _⟩ | ⟨_, c', r', buf', h2, h3, h4⟩
      · simp only [List.length_append] at h1; omega
      · subst h2
        simp only [List.length_append] at h4
        dsimp only
        rw [List.length_cons, ih (body.drop m) e c' r' buf' (off + m) (size - m) h3 (by omega)
          (by omega) (by simp only [List.length_drop]; omega)]
    · have t1 : (body ++ e).take m = body ++ e.take (m - size) := by
        rw [List.take_append, hbody, List.take_of_length_le (by omega)]
      have t2 : body.take m = body := List.take_of_length_le (by omega)
      rw [t1, t2]
      have hc1 := clipFrag_append size body (e.take (m - size)) hbody
      have hc2 := clipFrag_append size body [] hbody
      rw [List.append_nil] at hc2
      exact feed_last c r rest buf off size rl hs hrest hb _ _ _ _ (by rw [hc1, hc2])
        (by rw [hc1]; exact hbody)

theorem run_surplus (data : Bytes) (extra : Nat → Nat → Bytes) (retry : Nat)
    (L : List ChunkOffset) (hin : ∀ c ∈ L, c.stop ≤ data.length) :
    ∀ (script : List Resp) (st : CR), Good st → Tracked L st →
      CR.run (fun off size => slice data off size ++ extra off size) retry script st =
        CR.run (fun off size => slice data off size) retry script st := by
  intro script
  induction script with
  | nil =>
    intro st hg ht
    rw [CR.run.eq_1 _ retry [] st, CR.run.eq_1 (fun off size => slice data off size) retry [] st]
  | cons x s ih =>
    intro st hg ht
    obtain ⟨its0, st0, hd, hp, hcase⟩ := prep retry st hg
    have ht1 := ensureReq_tracked L retry st0 (drain_tracked L st its0 st0 false ht hd)
    rw [CR.run.eq_1 _ retry (x :: s) st,
      CR.run.eq_1 (fun off size => slice data off size) retry (x :: s) st]
    dsimp only
    rw [hd]
    rcases hcase with h | ⟨hne, c, r, rest, buf, off, size, rl, he, hs, hrest, hb, hsz⟩
    · simp [h]
    · rw [he] at ht1
      obtain ⟨⟨cl, hcl, hq1⟩, _⟩ := ht1.2 off size rl rfl
      have hfit : off + size ≤ data.length := by have := hin cl hcl; omega
      have hbody : (slice data off size).length = size := slice_length hfit
      have hz : ¬ (off = 0 ∧ size = 0) := by omega
      have hopen : ∀ rl', Open ⟨c :: (r ++ rest), buf, r.length + 1, some (off, size, rl')⟩ :=
        fun rl' => Open.mk c r rest buf off size rl' hs hrest hb
      simp only [hne, he]
      cases x with
      | refuse =>
        by_cases hrl : rl = 0
        · simp [hrl]
        · rw [ih _ (Good.opened _ (hopen (rl - 1))) (tracked_retry L _ _ _ _ _ _ (rl - 1) ht1)]
      | full fr =>
        dsimp only
        rw [feed_surplus rest hrest rl fr (slice data off size) (extra off size) c r buf off size
          hs hb hsz hbody]
        rcases feed_safe (splitBy fr (slice data off size)) _ (hopen rl) with
          ⟨its, rest2, e, hp2, hr2⟩ | ⟨its, st2, e, hp2, ho2⟩
        · rw [e]
          dsimp only
          rw [ih _ (Good.closed rest2 0 hr2) (feed_tracked L _ _ _ _ ht1 (Or.inl e))]
        · rw [e]
      | part n fr cut =>
        have hfe : CR.feed (splitBy fr ((slice data off size ++ extra off size).take n))
              ⟨c :: (r ++ rest), buf, r.length + 1, some (off, size, rl)⟩ =
            CR.feed (splitBy fr ((slice data off size).take n))
              ⟨c :: (r ++ rest), buf, r.length + 1, some (off, size, rl)⟩ := by
          by_cases hn : n ≤ size
          · rw [List.take_append_of_le_length (by omega)]
          · rw [List.take_append, hbody,
              List.take_of_length_le (l := slice data off size) (by omega)]
            exact feed_surplus rest hrest rl fr _ _ c r buf off size hs hb hsz hbody
        dsimp only
        rw [hfe]
        rcases feed_safe (splitBy fr ((slice data off size).take n)) _ (hopen rl) with
          ⟨its, rest2, e, hp2, hr2⟩ | ⟨its, st2, e, hp2, ho2⟩
        · rw [e]
          dsimp only
          rw [ih _ (Good.closed rest2 0 hr2) (feed_tracked L _ _ _ _ ht1 (Or.inl e))]
        · have ht2 := feed_tracked L _ _ _ _ ht1 (Or.inr e)
          rw [e]
          cases ho2 with
          | mk c2 r2 rest2 buf2 off2 size2 rl2 hs2 hrest2 hb2 =>
            dsimp only
            rw [ih _ (Good.opened _ (Open.mk c2 r2 rest2 buf2 off2 size2 (rl2 - 1)
              hs2 hrest2 hb2)) (tracked_retry L _ _ _ _ _ _ (rl2 - 1) ht2)]

/-- **Surplus is irrelevant.**  A server that appends anything at all to every answer (`extra`,
depending on the request) yields exactly the stream and the requests of the server that answers
with the requested bytes only. -/
theorem http_surplus_irrelevant (data : Bytes) (extra : Nat → Nat → Bytes) (retry : Nat)
    (script : List Resp) (chunks : List ChunkOffset)
    (hsize : ∀ c ∈ chunks, 1 ≤ c.size) (hin : ∀ c ∈ chunks, c.stop ≤ data.length) :
    httpReadChunks (fun off size => slice data off size ++ extra off size) retry script chunks =
      httpReadChunks (fun off size => slice data off size) retry script chunks := by
  exact run_surplus data extra retry chunks hin script _ (Good.closed chunks 0 hsize)
    ⟨fun x hx => hx, fun _ _ _ he => by cases he⟩

end Bita.Proofs
