/-
  The chunker model computes the pure chunking rule (C09 T5), part 1: the hasher invariant
  ("the hasher state is the one of the trailing window at stream position `q`") and the three
  loops of `RollingHashChunker::next` (`initLoop`, `feedN`, `scanN`) against it.
-/
import Bita.Proofs.HashWindow
import Bita.Proofs.SpecChunks
namespace Bita.Proofs.CR
open Bita Bita.Spec

/-- sliding a window one step -/
theorem take_drop_succ {α} (X : List α) (q n : Nat) (hn : 1 ≤ n) (h : q + n < X.length) :
    ((X.drop q).take n).tail ++ [X[q + n]] = (X.drop (q + 1)).take n := by
  obtain ⟨m, rfl⟩ : ∃ m, n = m + 1 := ⟨n - 1, by omega⟩
  rw [← List.drop_one, List.drop_take, List.drop_drop]
  simp only [Nat.add_sub_cancel]
  rw [List.take_succ_eq_append_getElem (by simp; omega)]
  simp [Nat.add_comm, Nat.add_left_comm]

theorem winAt_succ (n : Nat) (hn : 1 ≤ n) (data : Bytes) (q : Nat) (hq : q < data.length) :
    (winAt n data q).tail ++ [data[q]] = winAt n data (q + 1) := by
  unfold winAt
  rw [← take_drop_succ _ q n hn (by simp; omega)]
  congr 2
  rw [List.getElem_append_right (by simp)]
  simp
/-- The hasher is past its warm-up and its window is `w` (`n` bytes). -/
def HWin (algo : Algo) (n : Nat) (h : Hasher) (w : Bytes) : Prop :=
  match h with
  | .roll r => algo = .roll ∧ w.length = n ∧ RollOK r w
  | .buz b => algo = .buz ∧ ∃ fed, BuzOK b n fed ∧ fed.drop (fed.length - n) = w

theorem HWin_len {algo n h w} (hw : HWin algo n h w) : w.length = n := by
  cases h with
  | roll r => exact hw.2.1
  | buz b =>
    obtain ⟨_, fed, ok, rfl⟩ := hw
    have := ok.len
    simp; omega

theorem HWin_initDone {algo n h w} (hw : HWin algo n h w) : h.initDone = true := by
  cases h with
  | roll r => rfl
  | buz b =>
    obtain ⟨_, fed, ok, _⟩ := hw
    exact ok.full

theorem HWin_sum {algo n h w} (hw : HWin algo n h w) : h.sum = windowHash algo w := by
  cases h with
  | roll r =>
    obtain ⟨rfl, _, ok⟩ := hw
    exact RollOK_sum ok
  | buz b =>
    obtain ⟨rfl, fed, ok, rfl⟩ := hw
    exact ok.sum

theorem HWin_step {algo n h w} (hn : 1 ≤ n) (hw : HWin algo n h w) (x : UInt8) :
    HWin algo n (h.input x) (w.tail ++ [x]) := by
  cases h with
  | roll r =>
    obtain ⟨rfl, hl, ok⟩ := hw
    refine ⟨rfl, ?_, RollOK_input ok (by omega) x⟩
    simp; omega
  | buz b =>
    obtain ⟨rfl, fed, ok, rfl⟩ := hw
    refine ⟨rfl, fed ++ [x], BuzOK_input ok x, ?_⟩
    rw [List.length_append, List.length_singleton, lastN_snoc fed x hn ok.len]

/-- Feeding `k` bytes slides the window. -/
theorem HWin_feedN {algo n} (hn : 1 ≤ n) : ∀ (bs : Bytes) (k : Nat) (h : Hasher) (w : Bytes),
    HWin algo n h w → HWin algo n (feedN h bs k) ((w ++ bs.take k).drop (bs.take k).length) := by
  intro bs
  induction bs with
  | nil =>
    intro k h w hw
    cases k <;> simpa [feedN] using hw
  | cons b bs ih =>
    intro k h w hw
    cases k with
    | zero => simpa [feedN] using hw
    | succ k =>
      have hl := HWin_len hw
      cases w with
      | nil => simp at hl; omega
      | cons w0 wt =>
        have := ih k _ _ (HWin_step hn hw b)
        simpa [feedN] using this


/-- The hasher state corresponds to stream position `q`: its window is the trailing window of
the stream at `q` (BuzHash: and the warm-up is over, `n ≤ q`). -/
def HInv (algo : Algo) (n : Nat) (data : Bytes) (q : Nat) (h : Hasher) : Prop :=
  HWin algo n h (winAt n data q) ∧ (algo = .buz → n ≤ q)

theorem drop_eq_cons (data : Bytes) (q : Nat) (hq : q < data.length) :
    data.drop q = data[q] :: data.drop (q + 1) := by
  simp

theorem HInv_step {algo n data q h} (hn : 1 ≤ n) (hq : q < data.length)
    (hi : HInv algo n data q h) : HInv algo n data (q + 1) (h.input data[q]) := by
  refine ⟨?_, fun hb => by have := hi.2 hb; omega⟩
  rw [← winAt_succ n hn data q hq]
  exact HWin_step hn hi.1 _

theorem HInv_sum {algo n data q h} (hi : HInv algo n data q h) :
    h.sum = windowHash algo (winAt n data q) := HWin_sum hi.1

/-- Feeding the next `k` stream bytes. -/
theorem HInv_feedN {algo n data} (hn : 1 ≤ n) : ∀ (k q : Nat) (h : Hasher),
    HInv algo n data q h → q + k ≤ data.length →
    HInv algo n data (q + k) (feedN h (data.drop q) k) := by
  intro k
  induction k with
  | zero => intro q h hi _; simpa [feedN] using hi
  | succ k ih =>
    intro q h hi hk
    rw [drop_eq_cons data q (by omega), feedN]
    have := ih (q + 1) _ (HInv_step hn (by omega) hi) (by omega)
    rwa [show q + 1 + k = q + (k + 1) by omega] at this

/-- Feeding `k ≥ n` stream bytes from position `a`, whatever the window was before. -/
theorem HInv_feedN_skip {algo n data} (hn : 1 ≤ n) (k a : Nat) (h : Hasher) (w : Bytes)
    (hw : HWin algo n h w) (hk : n ≤ k) (ha : a + k ≤ data.length) :
    HInv algo n data (a + k) (feedN h (data.drop a) k) := by
  refine ⟨?_, fun _ => by omega⟩
  have := HWin_feedN hn (data.drop a) k h w hw
  have hl : ((data.drop a).take k).length = k := by simp; omega
  rw [drop_append_window w _ (by rw [hl, HWin_len hw]; exact hk), hl, HWin_len hw] at this
  rw [winAt_of_le n data (a + k) (by omega) ha]
  have e : List.drop (a + k - n) (List.take (a + k) data)
      = List.drop (k - n) (List.take k (List.drop a data)) := by
    rw [List.take_drop, List.drop_drop]
    congr 1
    omega
  rwa [e]

/-! ### `scanN` against `firstBoundary` -/

theorem scanN_some {algo n data mask s} (hn : 1 ≤ n) : ∀ (k q lo : Nat) (h : Hasher) (L : Nat),
    HInv algo n data q h → q + k ≤ data.length → s + lo = q + 1 →
    firstBoundary algo n mask data s lo k = some L →
    ∃ h', scanN mask h (data.drop q) k = (h', L + 1 - lo, true) ∧ HInv algo n data (s + L) h' := by
  intro k
  induction k with
  | zero => intro q lo h L _ _ _ hf; simp [firstBoundary] at hf
  | succ k ih =>
    intro q lo h L hi hk hlo hf
    have hi' := HInv_step hn (by omega) hi
    have hs := HInv_sum hi'
    rw [drop_eq_cons data q (by omega), scanN]
    rw [firstBoundary, hlo, ← hs] at hf
    simp only [allBitsSet, decide_eq_true_eq] at hf
    split at hf
    · next ht =>
      cases hf
      refine ⟨_, ?_, by rw [hlo]; exact hi'⟩
      simp only [ht, if_true]
      congr 2
      omega
    · next ht =>
      have hb := SpecChunks.firstBoundary_bounds _ _ _ _ _ _ _ _ hf
      obtain ⟨h', e, hi''⟩ := ih (q + 1) (lo + 1) _ L hi' (by omega) (by omega) hf
      refine ⟨h', ?_, hi''⟩
      simp only [ht, if_false, e]
      congr 2
      omega

theorem scanN_none {algo n data mask s} (hn : 1 ≤ n) : ∀ (k q lo : Nat) (h : Hasher),
    HInv algo n data q h → q + k ≤ data.length → s + lo = q + 1 →
    firstBoundary algo n mask data s lo k = none →
    ∃ h', scanN mask h (data.drop q) k = (h', k, false) ∧ HInv algo n data (q + k) h' := by
  intro k
  induction k with
  | zero => intro q lo h hi _ _ _; exact ⟨h, by cases data.drop q <;> rfl, hi⟩
  | succ k ih =>
    intro q lo h hi hk hlo hf
    have hi' := HInv_step hn (by omega) hi
    have hs := HInv_sum hi'
    rw [drop_eq_cons data q (by omega), scanN]
    rw [firstBoundary, hlo, ← hs] at hf
    simp only [allBitsSet, decide_eq_true_eq] at hf
    split at hf
    · cases hf
    · next ht =>
      obtain ⟨h', e, hi''⟩ := ih (q + 1) (lo + 1) _ hi' (by omega) (by omega) hf
      refine ⟨h', ?_, by rwa [show q + (k + 1) = q + 1 + k by omega]⟩
      simp only [ht, if_false, e]

/-! ### `initLoop` -/

theorem initLoop_done (h : Hasher) (hd : h.initDone = true) (bs : Bytes) (k : Nat) :
    initLoop h bs k = (h, 0) := by
  cases k with
  | zero => cases bs <;> rfl
  | succ k => cases bs <;> simp [initLoop, hd]

theorem initLoop_nil (h : Hasher) (k : Nat) : initLoop h [] k = (h, 0) := by
  cases k <;> rfl

/-- BuzHash warm-up from the start of the stream, everything buffered. -/
theorem initLoop_warm {n data} : ∀ (m j : Nat) (b : BuzHash),
    m = min n data.length - j → BuzWarm b n (data.take j) → j ≤ data.length →
    ∃ h', initLoop (.buz b) (data.drop j) (data.length - j) = (h', min n data.length - j) ∧
      (n ≤ data.length → HInv .buz n data n h') := by
  intro m
  induction m with
  | zero =>
    intro j b hm hw hj
    have hl := hw.len
    rw [List.length_take, Nat.min_eq_left hj] at hl
    have : data.drop j = [] := List.drop_eq_nil_of_le (by omega)
    rw [this, initLoop_nil]
    exact ⟨_, by rw [← hm], fun h => by omega⟩
  | succ m ih =>
    intro j b hm hw hj
    have hjl : j < data.length := by omega
    have ht : data.take j ++ [data[j]] = data.take (j + 1) := by simp
    have hl : (data.take j).length = j := by simp; omega
    rw [drop_eq_cons data j hjl, show data.length - j = (data.length - (j + 1)) + 1 by omega,
      initLoop]
    simp only [Hasher.initDone, hw.full, Hasher.init]
    by_cases hlt : j + 1 < n
    · have hw' := BuzWarm_init_lt hw data[j] (by omega)
      rw [ht] at hw'
      obtain ⟨h', e, hi⟩ := ih (j + 1) _ (by omega) hw' (by omega)
      refine ⟨h', ?_, hi⟩
      simp only [e, Bool.false_eq_true, if_false]
      congr 1
      omega
    · have hok := BuzWarm_init_eq hw data[j] (by omega)
      rw [ht] at hok
      have hjn : j + 1 = n := by omega
      rw [initLoop_done _ (by exact hok.full)]
      refine ⟨.buz (b.init data[j]), ?_, fun hnl => ⟨⟨rfl, _, hok, ?_⟩, fun _ => Nat.le_refl _⟩⟩
      · simp only [Bool.false_eq_true, if_false]
        congr 1
        omega
      · rw [winAt_of_le n data n (Nat.le_refl _) hnl, hjn]
        simp [Nat.min_eq_left hnl]

end Bita.Proofs.CR
