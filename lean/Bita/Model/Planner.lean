/-
  Model of bitar/src/chunk_index.rs:233-355 — `build_reorder_ops` (explicit-stack DFS) and
  `reorder_ops`.
-/
import Bita.Model.Index

namespace Bita

/-- `ReorderOp`. -/
inductive ROp (κ : Type) where
  | copy (k : κ) (size : Nat) (source : Nat) (dest : List Nat)
  | store (k : κ) (size : Nat) (source : Nat)
  deriving Repr, DecidableEq

/-- `MoveChunk`. -/
structure MoveChunk (κ : Type) where
  k : κ
  size : Nat
  source : Nat
  deriving Repr, DecidableEq

variable {κ : Type} [DecidableEq κ]

/-- State of the `while let Some(..) = stack.last_mut()` loop.  The head of `stack` is its top;
an entry's second component is `op` (`some` once the entry has been expanded). -/
structure DfsState (κ : Type) where
  stack : List (MoveChunk κ × Option (ROp κ))
  visited : List κ
  ops : List (ROp κ)
  deriving Repr

/-- What expanding `chunk` finds: for every target offset (ascending) every layout entry it
overlaps (`iter_overlapping` order), other than the chunk itself; each becomes a `StoreInMem`
(already visited) or a child.  Returns (stores, children in push order, destinations). -/
def expand (self newOrder : Index κ) (layout : Layout κ) (visited : List κ) (chunk : MoveChunk κ) :
    List (ROp κ) × List (MoveChunk κ) × List Nat :=
  match newOrder.get chunk.k with
  | none => ([], [], [])
  | some loc =>
    loc.offsets.foldl (fun (acc : List (ROp κ) × List (MoveChunk κ) × List Nat) target =>
      let (stores, childs, dests) := acc
      let ov := (layout.overlapping ⟨target, loc.size⟩).filter (fun e => e.2 ≠ chunk.k)
      let (stores', childs') := ov.foldl (fun (a : List (ROp κ) × List (MoveChunk κ)) e =>
        let first := (self.firstOffset e.2).getD 0       -- `.unwrap()`: always present (layout ⊆ self)
        if visited.contains e.2 then (a.1 ++ [ROp.store e.2 e.1.size first], a.2)
        else (a.1, a.2 ++ [⟨e.2, e.1.size, first⟩])) (stores, childs)
      (stores', childs', dests ++ [target])) ([], [], [])

/-- One iteration of the loop; `none` when the stack is empty. -/
def dfsStep (self newOrder : Index κ) (layout : Layout κ) (s : DfsState κ) : Option (DfsState κ) :=
  match s.stack with
  | [] => none
  | (chunk, op) :: rest =>
    if !s.visited.contains chunk.k then
      let visited := chunk.k :: s.visited
      let (stores, childs, dests) := expand self newOrder layout visited chunk
      some { stack := (childs.map (fun c => (c, none))).reverse ++
                        (chunk, some (ROp.copy chunk.k chunk.size chunk.source dests)) :: rest
             visited := visited
             ops := s.ops ++ stores }
    else
      match op with
      | some o => some { s with stack := rest, ops := s.ops ++ [o] }
      | none => some { s with stack := rest }

/-- `build_reorder_ops`: run the loop to the end (`fuel` iterations at most). -/
def dfsRun (self newOrder : Index κ) (layout : Layout κ) : Nat → DfsState κ → DfsState κ
  | 0, s => s
  | fuel + 1, s =>
    match dfsStep self newOrder layout s with
    | none => s
    | some s' => dfsRun self newOrder layout fuel s'

/-- Insertion sort of the chunks to move by source offset (`chunks.sort()`, stable). -/
def sortBySource : List (MoveChunk κ) → List (MoveChunk κ)
  | [] => []
  | c :: cs =>
    let rec ins (c : MoveChunk κ) : List (MoveChunk κ) → List (MoveChunk κ)
      | [] => [c]
      | d :: ds => if c.source < d.source then c :: d :: ds else d :: ins c ds
    ins c (sortBySource cs)

/-- An iteration bound for `dfsRun` that always suffices (every iteration either visits a new
chunk or pops an entry; entries are pushed only by visits). -/
def dfsFuel (newOrder : Index κ) (layout : Layout κ) : Nat :=
  2 * (1 + (newOrder.map (·.2.offsets.length)).sum * layout.length + layout.length) + 2

/-- `ChunkIndex::reorder_ops`. -/
def reorderOps (self newOrder : Index κ) : List (ROp κ) :=
  let movable := self.filter (fun e => newOrder.contains e.1 && !e.2.offsets.isEmpty)
  let layout : Layout κ := movable.foldl (fun lay e =>
    lay.insert ⟨e.2.offsets.headD 0, e.2.size⟩ e.1) []
  let chunks := sortBySource (movable.map (fun e => (⟨e.1, e.2.size, e.2.offsets.headD 0⟩ : MoveChunk κ)))
  let fuel := dfsFuel newOrder layout
  let (ops, _, _) := chunks.foldl (fun (acc : List (ROp κ) × List κ × Layout κ) chunk =>
    let (ops, processed, layout) := acc
    if processed.contains chunk.k then acc
    else
      let fin := dfsRun self newOrder layout fuel ⟨[(chunk, none)], [], ops⟩
      let layout' := fin.visited.foldl (fun lay k =>
        match self.get k with
        | some l => l.offsets.foldl (fun lay o => lay.remove ⟨o, l.size⟩) lay
        | none => lay) layout
      (fin.ops, fin.visited ++ processed, layout')) ([], [], layout)
  ops

end Bita
