/-
  Model of the option layer of the command line: src/string_utils.rs (`parse_human_size`,
  `hex_str_to_vec`), src/cli.rs (`parse_hash_sum`, `parse_chunker_opts`, `parse_chunker_config`,
  `parse_compression`, the value parsers / defaults / ranges of `add_chunker_args`, the temp path) and
  `FilterBits::from_size` (bitar/src/chunker/config.rs).

  Three of the defects found in oll3/bita (F6, F15, F21) were in this glue between the text a user
  types and the values the modelled core works with, so the glue is modelled: an option *text* goes
  in, the `CompressCmd` / pin bytes the rest of the model is about come out - or a refusal, or a
  panic where the Rust code panics (arithmetic overflow in builds with overflow checks, a string
  slice that does not end on a character boundary).

  Texts are `List Char`; `hex_str_to_vec` slices by *byte* index, so it is modelled on the UTF-8
  bytes of the text.  Defaults, units, ranges and the maximum level are read from the source
  (`Gen.Facts`, section 11 of facts.py).  clap itself is not modelled beyond: every option at most
  once, value parsers run in the order the options are given (here: the field order of
  `CompressArgs`, which is the order the correspondence harness passes them in), a value that
  starts with `-` is not taken as a value, `conflicts_with` is checked after all values parsed.
-/
import Bita.Model.Cli

namespace Bita.Options
open Bita

abbrev Txt := List Char

/-- Result of the option layer. -/
inductive Parsed (α : Type) where
  | ok (a : α)
  | refused            -- clap error: usage message, exit status 2, nothing else done
  | panic              -- the process panics while parsing (exit status 101)
  deriving Repr, DecidableEq

def Parsed.bind {α β : Type} (p : Parsed α) (f : α → Parsed β) : Parsed β :=
  match p with
  | .ok a => f a
  | .refused => .refused
  | .panic => .panic

def Parsed.isRefused {α : Type} : Parsed α → Bool
  | .refused => true
  | _ => false

def Parsed.isPanic {α : Type} : Parsed α → Bool
  | .panic => true
  | _ => false

def ofOption {α : Type} : Option α → Parsed α
  | some a => .ok a
  | none => .refused

def digitVal (c : Char) : Option Nat := if c.isDigit then some (c.toNat - 48) else none

/-- Value of a string of decimal digits (`none` if one is not a digit). -/
def digitsVal : Txt → Nat → Option Nat
  | [], acc => some acc
  | c :: cs, acc => match digitVal c with
    | some d => digitsVal cs (acc * 10 + d)
    | none => none

/-- `<uN as FromStr>::from_str` (radix 10, unsigned): an optional `+`, at least one digit, nothing
else, value below `2^bits`. -/
def parseUnsigned (bits : Nat) (s : Txt) : Option Nat :=
  let ds := match s with
    | '+' :: r => r
    | r => r
  match ds with
  | [] => none
  | _ => match digitsVal ds 0 with
    | some v => if v < 2 ^ bits then some v else none
    | none => none

/-- clap does not take a text starting with `-` (other than `-` itself) as the value of an option. -/
def clapTakesAsValue (s : Txt) : Bool :=
  match s with
  | '-' :: _ :: _ => false
  | _ => true

/-- Multiplier of a size unit (`Gen.sizeUnits`: the match arms of `parse_human_size`). -/
def unitMultiplier (u : Txt) : Option Nat :=
  (Gen.sizeUnits.find? (fun e => e.1 = u)).map (·.2)

/-- `parse_human_size`: the text up to the first alphabetic character is a `usize`, the rest a
unit; `multiplier * value` is computed in `usize` (overflow: panic in builds with overflow checks,
which is what the correspondence harness and the checked `bita` are). -/
def parseHumanSize (s : Txt) : Parsed Nat :=
  match s.findIdx? Char.isAlpha with
  | none => ofOption (parseUnsigned 64 s)
  | some i =>
    match parseUnsigned 64 (s.take i) with
    | none => .refused
    | some v =>
      match unitMultiplier (s.drop i) with
      | none => .refused
      | some m => if m * v < 2 ^ 64 then .ok (m * v) else .panic

/-- A size option as clap sees it. -/
def sizeValue (s : Txt) : Parsed Nat :=
  if clapTakesAsValue s then parseHumanSize s else .refused

/-! ### `--verify-header` -/

/-- UTF-8 continuation byte: a byte index pointing at one is not a character boundary. -/
def isCont (b : UInt8) : Bool := 0x80 ≤ b && b < 0xC0

def startsAtBoundary : Bytes → Bool
  | [] => true
  | b :: _ => !isCont b

def hexDigitVal (b : UInt8) : Option Nat :=
  if 48 ≤ b ∧ b ≤ 57 then some (b.toNat - 48)
  else if 97 ≤ b ∧ b ≤ 102 then some (b.toNat - 87)
  else if 65 ≤ b ∧ b ≤ 70 then some (b.toNat - 55)
  else none

/-- `u8::from_str_radix(pair, 16)` for a two-byte text: two hex digits, or `+` and one hex digit. -/
def parseHexPair (a b : UInt8) : Option UInt8 :=
  if a = 43 then (hexDigitVal b).map (fun v => UInt8.ofNat v)
  else match hexDigitVal a, hexDigitVal b with
    | some x, some y => some (UInt8.ofNat (16 * x + y))
    | _, _ => none

/-- The `(0..len).step_by(2).map(|i| u8::from_str_radix(&s[i..i + 2], 16)).collect()` of
`hex_str_to_vec`, pair by pair in order: the slice panics unless both its ends are character
boundaries; the first pair that is not a number ends the iteration with an error. -/
def hexPairs : Bytes → Parsed Bytes
  | [] => .ok []
  | [_] => .refused              -- not reachable: the text was padded to an even length
  | a :: b :: rest =>
    if isCont a || !startsAtBoundary rest then .panic
    else match parseHexPair a b with
      | none => .refused
      | some v => (hexPairs rest).bind fun vs => .ok (v :: vs)

/-- `hex_str_to_vec` on the UTF-8 bytes of the text: an odd-length text gets a leading `0`. -/
def hexStrToVec (s : Bytes) : Parsed Bytes :=
  hexPairs (if s.length % 2 = 1 then 48 :: s else s)

/-- `parse_hash_sum`: more than `HashSum::MAX_LEN` bytes are refused (F15 repair), fewer are kept
as they are (`HashSum::from` copies the bytes). -/
def parseHashSum (s : Bytes) : Parsed Bytes :=
  (hexStrToVec s).bind fun v => if v.length > Gen.hashMaxLen then .refused else .ok v

/-! ### chunker options -/

/-- `u32::leading_zeros`. -/
def clz32 (x : Nat) : Nat := 32 - (if x = 0 then 0 else Nat.log2 x + 1)

/-- `FilterBits::from_size(size as u32)`: `30 - leading_zeros`, a subtraction that overflows for
sizes 0 and 1. -/
def filterBitsFromSize (size : Nat) : Parsed Nat :=
  let x := size % 2 ^ 32
  if clz32 x ≤ 30 then .ok (30 - clz32 x) else .panic

/-- `parse_chunker_opts`. -/
def parseChunkerOpts (avg min max window : Nat) : Parsed FilterConfig :=
  (filterBitsFromSize avg).bind fun bits =>
    if min > avg then .refused
    else if max < avg then .refused
    else if max > 2 ^ 32 - 1 ∨ window > 2 ^ 32 - 1 then .refused
    else .ok ⟨bits, min, max, window⟩

/-- The options of `add_chunker_args` (+ the common ones) of `bita compress`, as texts; `none` =
not given.  Field order = the order in which the harness passes them = parsing order. -/
structure CompressArgs where
  input : Option String := none
  output : String
  force : Bool := false
  avg : Option Txt := none
  min : Option Txt := none
  max : Option Txt := none
  hashChunking : Option Txt := none
  window : Option Txt := none
  fixed : Option Txt := none
  level : Option Txt := none
  compression : Option Txt := none
  hashLength : Option Txt := none
  buffered : Option Txt := none
  deriving Repr

/-- What `parse_opts` hands to `compress_cmd`. -/
structure CompressParsed where
  cmd : CompressCmd                 -- `input = ""` when stdin is used
  stdin : Bool
  buffers : Option Nat
  deriving Repr

/-- An optional size option: the given text, else the default text (which goes through the same
value parser). -/
def sizeOpt (given : Option Txt) (dflt : Txt) : Parsed Nat := sizeValue (given.getD dflt)

def optSize : Option Txt → Parsed (Option Nat)
  | none => .ok none
  | some t => (sizeValue t).bind fun v => .ok (some v)

/-- `value_parser!(u32)` / `.range(lo..=hi)`: clap parses an `i64` and checks the range; a text
that would make it negative starts with `-` and is not taken as a value at all. -/
def rangedU32 (lo hi : Nat) (s : Txt) : Parsed Nat :=
  if !clapTakesAsValue s then .refused
  else match parseUnsigned 63 s with
    | some v => if lo ≤ v ∧ v ≤ hi then .ok v else .refused
    | none => .refused

def txtOf (s : String) : Txt := s.toList

/-- `parse_compression` for a build with the default features (brotli only). -/
def parseCompression (name : Txt) (level : Nat) : Parsed Compr :=
  if name = Gen.txtBrotli then
    (if level < 1 ∨ level > Gen.brotliMaxLevel then .refused
     else .ok (some (Gen.enum_CompressionType_BROTLI, level)))
  else if name = Gen.txtNone then .ok none
  else .refused

/-- `parse_opts` for `bita compress` followed by the construction of `compress_cmd::Options`. -/
def parseCompress (a : CompressArgs) : Parsed CompressParsed :=
  -- clap: values are parsed as they are met, defaults afterwards
  (sizeOpt a.avg Gen.cliDefaultAvg).bind fun avg =>
  (sizeOpt a.min Gen.cliDefaultMin).bind fun min =>
  (sizeOpt a.max Gen.cliDefaultMax).bind fun max =>
  (match a.hashChunking with
    | none => Parsed.ok Gen.cliDefaultHashChunking
    | some t => if t = Gen.txtRollSum ∨ t = Gen.txtBuzHash then .ok t else .refused).bind fun algo =>
  (sizeOpt a.window (if algo = Gen.txtBuzHash then Gen.cliDefaultWindowBuzHash else Gen.cliDefaultWindowRollSum)).bind fun window =>
  (optSize a.fixed).bind fun fixed =>
  (rangedU32 0 (2 ^ 32 - 1) (a.level.getD Gen.cliDefaultLevel)).bind fun level =>
  (match a.compression with
    | none => Parsed.ok Gen.cliDefaultCompression
    | some t => if t = Gen.txtBrotli ∨ t = Gen.txtNone then .ok t else .refused).bind fun cname =>
  (rangedU32 Gen.cliHashLengthMin Gen.hashMaxLen (a.hashLength.getD Gen.cliDefaultHashLength)).bind fun hashLen =>
  (match a.buffered with
    | none => Parsed.ok none
    | some t => if clapTakesAsValue t then
        (match parseUnsigned 64 t with | some v => Parsed.ok (some v) | none => .refused) else .refused).bind fun buffers =>
  -- clap: `fixed-size` conflicts with an explicitly given `hash-chunking`
  if fixed.isSome ∧ a.hashChunking.isSome then .refused else
  -- parse_chunker_config, then parse_compression
  (match fixed with
    | some n => if n > 2 ^ 32 - 1 then Parsed.refused else .ok (Config.fixed n)
    | none =>
      (parseChunkerOpts avg min max window).bind fun f =>
        .ok (if algo = Gen.txtBuzHash then Config.buzhash f else Config.rollsum f)).bind fun cfg =>
  (parseCompression cname level).bind fun compr =>
  .ok { cmd := { flags := ⟨a.force, false, false⟩
                 input := a.input.getD ""
                 output := a.output
                 temp := tempPathOf a.output
                 opts := ⟨cfg, hashLen, compr, []⟩ }
        stdin := a.input.isNone
        buffers := buffers }

/-- `--metadata-value KEY VALUE` (any number of times): clap's default `String` value parser refuses
an argument that is not UTF-8; accepted pairs are handed on as given, in order. -/
def parseMetadataValues (pairs : List (Bytes × Bytes)) : Parsed (List (Bytes × Bytes)) :=
  if pairs.all (fun e => Proto.utf8Valid e.1 && Proto.utf8Valid e.2) then .ok pairs else .refused

/-! ### metadata (`compress_cmd`: "Construct custom metadata hashmap") -/

/-- `String`'s `Ord`: byte-wise lexicographic on the UTF-8 bytes. -/
def keyLt (a b : Bytes) : Bool := decide ((a.map (·.toNat)) < (b.map (·.toNat)))

/-- `BTreeMap::insert` on an association list kept ascending by key: an existing key gets the new
value, a new key goes to its place. -/
def metaInsert (m : List (Bytes × Bytes)) (k v : Bytes) : List (Bytes × Bytes) :=
  match m with
  | [] => [(k, v)]
  | (k', v') :: rest =>
    if k = k' then (k, v) :: rest
    else if keyLt k k' then (k, v) :: (k', v') :: rest
    else (k', v') :: metaInsert rest k v

/-- The map `compress_cmd` builds: every `--metadata-value` pair in order, then every
`--metadata-file` pair (key, file content) in order; a later pair replaces an earlier one with the
same key. -/
def metadataOf (strings files : List (Bytes × Bytes)) : List (Bytes × Bytes) :=
  (strings ++ files).foldl (fun m e => metaInsert m e.1 e.2) []

/-! ### `bita clone` -/

/-- What the environment answers about the ARCHIVE text (`parse_input_archive_config`): the path
exists; it does not exist but is an absolute path (`Url::from_file_path` succeeds); it parses as a
URL; none of these.  External calls (`Path::exists`, the url crate) are parameters of the model. -/
inductive ArchiveKind where
  | existingPath
  | missingAbsolutePath
  | url
  | neither
  deriving Repr, DecidableEq

/-- The options of `bita clone`, as texts, in the order the harness passes them. -/
structure CloneArgs where
  verifyHeader : Option Bytes := none      -- UTF-8 bytes of the text
  seeds : List String := []                -- every `--seed` value, in order; `-` is stdin
  retryCount : Option Txt := none
  retryDelay : Option Txt := none
  timeout : Option Txt := none
  buffered : Option Txt := none
  seedOutput : Bool := false
  force : Bool := false
  verifyOutput : Bool := false
  archive : String
  archiveKind : ArchiveKind
  output : String
  deriving Repr

/-- What `parse_opts` hands to `clone_cmd`. -/
structure CloneParsed where
  cmd : CloneCmd
  remote : Bool
  seedStdin : Bool
  retries : Nat
  retryDelay : Nat
  timeout : Option Nat
  buffers : Option Nat
  deriving Repr

def optUnsigned (bits : Nat) : Option Txt → Parsed (Option Nat)
  | none => .ok none
  | some t => if clapTakesAsValue t then
      (match parseUnsigned bits t with
        | some v => .ok (some v)
        | none => .refused) else .refused

/-- A text given to `--verify-header`, as clap hands it to `parse_hash_sum`. -/
def pinValue (s : Bytes) : Parsed Bytes :=
  match s with
  | 45 :: _ :: _ => .refused              -- starts with `-`: not taken as a value
  | _ => parseHashSum s

/-- `parse_opts` for `bita clone`: values are parsed as they are met, then the Options are built:
a `--seed` value `-` means stdin and is not a seed file, every other one is a seed file, in the
order given; the three flags are taken as given; the archive is local iff the path exists. -/
def parseClone (a : CloneArgs) : Parsed CloneParsed :=
  (match a.verifyHeader with
    | none => Parsed.ok none
    | some t => (pinValue t).bind fun v => .ok (some v)).bind fun pin =>
  (if a.seeds.all (fun s => clapTakesAsValue s.toList) then Parsed.ok () else .refused).bind fun _ =>
  (match a.retryCount with
    | none => Parsed.ok 0
    | some t => rangedU32 0 (2 ^ 32 - 1) t).bind fun retries =>
  (optUnsigned 64 a.retryDelay).bind fun delay =>
  (optUnsigned 64 a.timeout).bind fun timeout =>
  (optUnsigned 64 a.buffered).bind fun buffers =>
  match a.archiveKind with
  | .missingAbsolutePath | .neither => .refused
  | kind =>
    .ok { cmd := { flags := ⟨a.force, a.seedOutput, a.verifyOutput⟩
                   pin := pin
                   output := a.output
                   archivePath := a.archive
                   seedPaths := a.seeds.filter (· ≠ "-") }
          remote := decide (kind = ArchiveKind.url)
          seedStdin := a.seeds.contains "-"
          retries := retries
          retryDelay := delay.getD 0
          timeout := timeout
          buffers := buffers }

end Bita.Options
