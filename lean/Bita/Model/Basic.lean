/-
  Shared basic definitions of the bita model.  Import-free (core Lean only) so
  that the driver links as a native executable.
-/
namespace Bita

abbrev Bytes := List UInt8

/-- `data[off .. off+len)` clipped to the end of `data` (a read never invents bytes). -/
def slice (data : Bytes) (off len : Nat) : Bytes := (data.drop off).take len

/-- `chunk_offset.rs::ChunkOffset` (offset: u64, size: usize). -/
structure ChunkOffset where
  offset : Nat
  size : Nat
  deriving Repr, DecidableEq, Inhabited

/-- `ChunkOffset::end`. -/
def ChunkOffset.stop (c : ChunkOffset) : Nat := c.offset + c.size

/-- Split `b` into pieces of the given sizes; what is left after the sizes run out is the
last piece.  A size of 0 is read as 1 (a transport never delivers an empty fragment). -/
def splitBy : List Nat → Bytes → List Bytes
  | [], b => if b.isEmpty then [] else [b]
  | n :: ns, b =>
    if b.isEmpty then [] else b.take (max n 1) :: splitBy ns (b.drop (max n 1))

end Bita
