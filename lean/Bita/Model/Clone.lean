/-
  Model of src/clone_cmd.rs::clone_archive (and the pieces of bitar/src/chunk.rs it drives) at
  the level of byte strings: the archive is reached through two reader functions, the output
  is a byte string with a write log, seeds are byte strings.

  `H` is the strong hash, `decomp` the codec's decompressor.  Nothing is assumed about either
  here; theorems state what they need.
-/
import Bita.Model.Archive
import Bita.Model.Output
import Bita.Model.Compress

namespace Bita

/-- What a clone was asked to do (the part of `clone_cmd::Options` that matters here). -/
structure CloneOpts where
  seedOutput : Bool := false
  verifyOutput : Bool := false
  headerPin : Option Bytes := none     -- `--verify-header`
  blockDev : Bool := false             -- the output is a block device (no resize)
  deriving Repr

/-- One request made to the archive reader. -/
inductive ArchReq where
  | readAt (off size : Nat)
  | readChunks (ranges : List (Nat × Nat))
  deriving Repr, DecidableEq

inductive CloneResult where
  | ok
  | err (why : String)
  | panic (site : String)
  deriving Repr, DecidableEq

structure CloneOut where
  result : CloneResult
  output : Bytes                       -- content of the output afterwards
  log : List IoOp                      -- reads and writes issued to the output
  requests : List ArchReq              -- what was asked of the archive reader
  deriving Repr

/-- The index that scanning a byte string with the archive's chunker builds
(`chunk_index_from_readable`): every chunk keyed by its strong hash truncated to `hashLen`. -/
def scanIndex (H : Bytes → Bytes) (cfg : Config) (hashLen : Nat) (data : Bytes) : Index Bytes :=
  (chunkAll cfg data).foldl (fun ix c =>
    ix.addChunk (hashTruncate (H (slice data c.1 c.2)) hashLen) c.2 [c.1]) []

/-- `clone_from_readable`: chunk a seed with the archive's chunker, hash every chunk, feed it. -/
def feedSeed (H : Bytes → Bytes) (cfg : Config) (hashLen : Nat) (st : OutSt Bytes) (seed : Bytes) : OutSt Bytes :=
  (chunkAll cfg seed).foldl (fun st c =>
    let data := slice seed c.1 c.2
    (st.feed (hashTruncate (H data) hashLen) data).1) st

/-- The reader's raw rule (`archive.rs::chunk_stream`): a fetched chunk is taken as not
compressed iff `source_size <op> stored.len()`, with the operator read from the source
(`Gen.readerRawIf`; the documented format says `==`).  An operator the model does not know
makes every chunk "compressed", which no theorem about round trips survives. -/
def readerTakesRaw (sourceSize storedLen : Nat) : Bool :=
  if Gen.readerRawIf = "==" then decide (sourceSize = storedLen)
  else if Gen.readerRawIf = "<=" then decide (sourceSize ≤ storedLen)
  else if Gen.readerRawIf = ">=" then decide (sourceSize ≥ storedLen)
  else false

/-- `CompressionAlgorithm::decompress(compressed, size_hint)`: whatever the codec `raw` produces for
the stored bytes is written into a buffer that refuses more than the size declared for the chunk
(whether that limit is in the source is read on every run: `Gen.decompressOutputLimited`, F11). -/
def limitedDecomp (raw : Nat → Bytes → Option Bytes) (algo : Nat) (stored : Bytes) (declared : Nat) :
    Option Bytes :=
  (raw algo stored).bind fun out =>
    if Gen.decompressOutputLimited = true ∧ declared < out.length then none else some out

/-- `CompressedChunk::decompress` + `ArchiveChunk::verify` for one fetched item. -/
def decodeChunk (H : Bytes → Bytes) (decomp : Nat → Bytes → Nat → Option Bytes)
    (compr : Compr) (d : Descr) (stored : Bytes) : Option Bytes :=
  let raw : Option Bytes :=
    if readerTakesRaw d.sourceSize stored.length then some stored   -- stored size == source size: not compressed
    else match compr with
      | some (algo, _) => decomp algo stored d.sourceSize
      | none => some stored
  raw.bind fun chunk =>
    -- a chunk that is not exactly as large as declared is an error (F19 repair, `Gen.chunkLengthChecked`)
    if Gen.chunkLengthChecked = true ∧ chunk.length ≠ d.sourceSize then none
    else if hashTruncate (H chunk) d.checksum.length = d.checksum then some chunk else none

/-- `clone_from_archive`: fetch what the clone index still lacks, decode, verify, feed.
`items` is what the reader's stream yields for the requested list (`none` = an error item; the
stream ends there). Returns the state and whether an error stopped it. -/
def feedArchive (H : Bytes → Bytes) (decomp : Nat → Bytes → Nat → Option Bytes) (a : Archive)
    (st : OutSt Bytes) (fetch : List Descr) (items : List (Option Bytes)) : OutSt Bytes × Option String :=
  (fetch.zip items).foldl (fun (acc : OutSt Bytes × Option String) e =>
    match acc.2 with
    | some _ => acc
    | none =>
      match e.2 with
      | none => (acc.1, some "read archive")
      | some stored =>
        match decodeChunk H decomp a.compression e.1 stored with
        | none => (acc.1, some "decompress or verify chunk")
        | some chunk => ((acc.1.feed (hashTruncate (H chunk) a.hashLength) chunk).1, none)) (st, none)

/-- `clone_archive`.  `readAt`/`readChunks` are the archive reader (`readChunks` answers with one
item per requested range, `none` marking the error that ends the stream). -/
def Clone.run (H : Bytes → Bytes) (decomp : Nat → Bytes → Nat → Option Bytes) (features : List Nat)
    (readAt : Nat → Nat → Option Bytes) (readChunks : List (Nat × Nat) → List (Option Bytes))
    (opts : CloneOpts) (prior : Bytes) (seeds : List Bytes) : CloneOut :=
  let hdrReqs (dictSize : Nat) := [ArchReq.readAt 0 Gen.preHeaderSize, ArchReq.readAt Gen.preHeaderSize (dictSize + 72)]
  match tryInit H features readAt with
  | .invalid w => ⟨.err w, prior, [], [ArchReq.readAt 0 Gen.preHeaderSize]⟩
  | .readerErr => ⟨.err "reader error", prior, [], [ArchReq.readAt 0 Gen.preHeaderSize]⟩
  | .panic s => ⟨.panic s, prior, [], []⟩
  | .abort s => ⟨.panic s, prior, [], []⟩
  | .ok a =>
    let reqs := hdrReqs (a.headerSize - Gen.preHeaderSize - 72)
    match a.sourceIndex, a.banner with
    | none, _ => ⟨.panic "rebuild order index", prior, [], reqs⟩
    | _, .panic s => ⟨.panic s, prior, [], reqs⟩
    | some cloneIndex, _ =>
      -- `--verify-header`: full byte-string comparison (F6 repair)
      if (match opts.headerPin with | some pin => decide (pin ≠ a.headerChecksum) | none => false) then
        ⟨.err "header checksum mismatch", prior, [], reqs⟩
      -- block device smaller than the source
      else if opts.blockDev ∧ prior.length < a.sourceTotalSize then
        ⟨.err "output device too small", prior, [], reqs⟩
      else
        let st0 : OutSt Bytes := ⟨prior, cloneIndex, []⟩
        -- in-place: scan the output from its start, reorder
        let st1? : Option (OutSt Bytes) :=
          if opts.seedOutput then
            (st0.reorderInPlace (scanIndex H a.config a.hashLength prior)).map (·.1)
          else some st0
        match st1? with
        | none => ⟨.err "failed to clone in place", prior, [], reqs⟩
        | some st1 =>
          let st2 := seeds.foldl (feedSeed H a.config a.hashLength) st1
          let fetch := a.fetchList st2.index
          let ranges := fetch.map fun d => (d.archiveOffset, d.archiveSize)
          let (st3, e) := feedArchive H decomp a st2 fetch (readChunks ranges)
          let reqs := reqs ++ [ArchReq.readChunks ranges]
          match e with
          | some w => ⟨.err w, st3.file, st3.log, reqs⟩
          | none =>
            let out := if opts.blockDev then st3.file else setLen st3.file a.sourceTotalSize
            -- `--verify-output` hashes the first `source_total_size` bytes (F17 repair,
            -- `Gen.verifyHashesSourceSizeOnly`): a block device may be longer than the source
            let hashed := if Gen.verifyHashesSourceSizeOnly then out.take a.sourceTotalSize else out
            if opts.verifyOutput ∧ hashTruncate (H hashed) a.sourceChecksum.length ≠ a.sourceChecksum then
              ⟨.err "checksum mismatch", out, st3.log, reqs⟩
            else ⟨.ok, out, st3.log, reqs⟩

/-- An honest local reader over archive bytes. -/
def honestReadAt (archive : Bytes) (off size : Nat) : Option Bytes :=
  if off + size ≤ archive.length then some (slice archive off size) else none

def honestReadChunks (archive : Bytes) (ranges : List (Nat × Nat)) : List (Option Bytes) :=
  ranges.map fun r => honestReadAt archive r.1 r.2

end Bita
