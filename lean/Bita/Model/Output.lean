/-
  Model of bitar/src/clone_output.rs — `CloneOutput::{feed, write_offset, reorder_in_place}`
  over an in-memory file, with a log of every read and write issued to the output.
-/
import Bita.Model.Planner

namespace Bita

/-- One I/O request to the output (every one is preceded by a `seek` to its offset). -/
inductive IoOp where
  | read (off len : Nat)
  | write (off : Nat) (data : Bytes)
  deriving Repr, DecidableEq

/-- `seek(Start(off)); write_all(b)` on a file: bytes past the end extend it (the gap, if any,
reads as zeros). -/
def writeAt (f : Bytes) (off : Nat) (b : Bytes) : Bytes :=
  let f' := if f.length < off then f ++ List.replicate (off - f.length) 0 else f
  f'.take off ++ b ++ f'.drop (off + b.length)

/-- `seek(Start(off)); read_exact(len)`: fails (`UnexpectedEof`) past the end. -/
def readAt (f : Bytes) (off len : Nat) : Option Bytes :=
  if off + len ≤ f.length then some (slice f off len) else none

/-- `File::set_len(n)` on a regular file: truncate, or extend with zeros. -/
def setLen (f : Bytes) (n : Nat) : Bytes := f.take n ++ List.replicate (n - f.length) 0

/-- `CloneOutput { inner, clone_index }` plus the I/O log. -/
structure OutSt (κ : Type) where
  file : Bytes
  index : Index κ
  log : List IoOp
  deriving Repr

variable {κ : Type} [DecidableEq κ]

/-- `write_offset`: the chunk at every offset, in the order given. -/
def OutSt.writeOffsets (st : OutSt κ) (offs : List Nat) (data : Bytes) : OutSt κ :=
  offs.foldl (fun st o => { st with file := writeAt st.file o data, log := st.log ++ [IoOp.write o data] }) st

/-- `feed`: if the chunk is still wanted, remove it from the clone index and write it to all
its offsets; returns the number of bytes written. -/
def OutSt.feed (st : OutSt κ) (k : κ) (data : Bytes) : OutSt κ × Nat :=
  match st.index.get k with
  | some loc =>
    (({ st with index := st.index.remove k }).writeOffsets loc.offsets data, loc.offsets.length * data.length)
  | none => (st, 0)

/-- Executor state: the output and the in-memory chunk store. -/
structure ExecSt (κ : Type) where
  out : OutSt κ
  store : List (κ × Bytes)
  moved : Nat
  deriving Repr

/-- One `ReorderOp`; `none` = the read failed (`?`). -/
def ExecSt.step (s : ExecSt κ) : ROp κ → Option (ExecSt κ)
  | .copy k size source dest =>
    match s.store.find? (fun e => e.1 = k) with
    | some (_, data) =>
      some { out := { (s.out.writeOffsets dest data) with index := (s.out.writeOffsets dest data).index.remove k }
             store := s.store.filter (fun e => e.1 ≠ k)
             moved := s.moved + size }
    | none =>
      match readAt s.out.file source size with
      | none => none
      | some data =>
        let o1 := { s.out with log := s.out.log ++ [IoOp.read source size] }
        let o2 := o1.writeOffsets dest data
        some { out := { o2 with index := o2.index.remove k }, store := s.store, moved := s.moved + size }
  | .store k size source =>
    if (s.store.find? (fun e => e.1 = k)).isSome then some s
    else
      match readAt s.out.file source size with
      | none => none
      | some data =>
        some { s with out := { s.out with log := s.out.log ++ [IoOp.read source size] }
                      store := s.store ++ [(k, data)] }

def ExecSt.run (s : ExecSt κ) : List (ROp κ) → Option (ExecSt κ)
  | [] => some s
  | op :: ops => (s.step op).bind (·.run ops)

/-- `CloneOutput::reorder_in_place(output_index)`: strip what is in place, plan, execute.
Returns the new output state and `total_moved + in_place_total_size`. -/
def OutSt.reorderInPlace (st : OutSt κ) (outputIndex : Index κ) : Option (OutSt κ × Nat) :=
  let (target, _cnt, inPlaceSize) := outputIndex.strip st.index
  let st1 := { st with index := target }
  let ops := reorderOps outputIndex target
  match (ExecSt.run ⟨st1, [], 0⟩ ops) with
  | some fin => some (fin.out, fin.moved + inPlaceSize)
  | none => none

end Bita
