/-
  Model of the command-line flows at the level of the file system: src/clone_cmd.rs
  (clone_archive + clone_cmd), src/compress_cmd.rs (compress_cmd), src/cli.rs (temp path).

  The file system is a finite map from paths to nodes with POSIX `open` semantics; every
  operation with a write intent is logged.  The `OpenOptions` flag expressions and the order
  of the steps are *read from the source* (`Bita.Gen.Facts`), so an edit to them changes the
  subject of the theorems.
-/
import Bita.Model.Clone
import Bita.Gen.Facts

namespace Bita
open Gen

inductive Node where
  | regular (data : Bytes)
  | blockdev (data : Bytes)
  deriving Repr, DecidableEq

def Node.data : Node → Bytes
  | .regular d => d
  | .blockdev d => d

abbrev Fs := List (String × Node)

def Fs.get (fs : Fs) (p : String) : Option Node := (fs.find? (·.1 = p)).map (·.2)

def Fs.set (fs : Fs) (p : String) (n : Node) : Fs :=
  if (fs.get p).isSome then fs.map (fun e => if e.1 = p then (p, n) else e) else fs ++ [(p, n)]

def Fs.remove (fs : Fs) (p : String) : Fs := fs.filter (·.1 ≠ p)

/-- An operation with an effect (or intended effect) on the file system. -/
inductive FsOp where
  | openWrite (path : String) (flags : String)   -- an open with write access / create / truncate
  | openRead (path : String)
  | write (path : String)
  | truncate (path : String)
  | unlink (path : String)
  deriving Repr, DecidableEq

/-- Concrete open flags (Rust `OpenOptions`). -/
structure OpenFlags where
  read : Bool
  write : Bool
  create : Bool
  createNew : Bool
  truncate : Bool
  deriving Repr, DecidableEq

def OpenFlags.ofExprs (e : OpenExprs) (o : CliFlags) : Option OpenFlags := do
  some { read := ← e.read o, write := ← e.write o, create := ← e.create o,
         createNew := ← e.createNew o, truncate := ← e.truncate o }

def OpenFlags.describe (f : OpenFlags) : String :=
  (if f.read ∧ f.write then "O_RDWR" else if f.write then "O_WRONLY" else "O_RDONLY") ++
  (if f.create ∨ f.createNew then "|O_CREAT" else "") ++ (if f.createNew then "|O_EXCL" else "") ++
  (if f.truncate ∧ ¬f.createNew then "|O_TRUNC" else "")

/-- POSIX `open` as Rust's `OpenOptions` drives it: `create_new` = `O_CREAT|O_EXCL` (fails when
the path exists; `create`/`truncate` are then ignored); `create` creates a missing file;
`truncate` empties an existing regular file; a missing file without create fails. -/
def Fs.openOut (fs : Fs) (p : String) (f : OpenFlags) : Option Fs :=
  match fs.get p with
  | some n =>
    if f.createNew then none
    else if f.truncate then
      match n with
      | .regular _ => some (fs.set p (.regular []))
      | .blockdev _ => some fs
    else some fs
  | none => if f.create ∨ f.createNew then some (fs.set p (.regular [])) else none

/-- Options and environment of one `bita clone` run. -/
structure CloneCmd where
  flags : CliFlags
  pin : Option Bytes
  output : String
  archivePath : String             -- a local archive (an http archive touches no file at all)
  seedPaths : List String
  deriving Repr

structure CmdOut where
  ok : Bool
  fs : Fs
  ops : List FsOp
  deriving Repr

/-- `clone_cmd` + `clone_archive` on a file system.  The steps happen in the order recorded in
`Gen.cloneStepOrder` (the model is written for the order try_init, banner, pin, open_output,
device_check, scan, reorder, seeds, fetch, flush, resize, verify; theorems require the extracted
order to be that one). -/
def Cli.clone (H : Bytes → Bytes) (decomp : Nat → Bytes → Nat → Option Bytes) (c : CloneCmd) (fs : Fs) : CmdOut :=
  -- clone_cmd: open the archive read-only
  match fs.get c.archivePath with
  | none => ⟨false, fs, []⟩
  | some an =>
    let ops0 := [FsOp.openRead c.archivePath]
    let archive := an.data
    match tryInit H [] (honestReadAt archive) with
    | .ok a =>
      -- pin
      if (match c.pin with | some pin => decide (pin ≠ a.headerChecksum) | none => false) then ⟨false, fs, ops0⟩ else
      -- open the output
      match OpenFlags.ofExprs cloneOpen c.flags with
      | none => ⟨false, fs, ops0⟩
      | some fl =>
        let ops1 := ops0 ++ [FsOp.openWrite c.output fl.describe]
        match fs.openOut c.output fl with
        | none => ⟨false, fs, ops1⟩
        | some fs1 =>
          match fs1.get c.output with
          | none => ⟨false, fs1, ops1⟩
          | some onode =>
            let isDev := match onode with | .blockdev _ => true | .regular _ => false
            -- seeds are opened read-only, one after the other, after the in-place phase
            let seeds := c.seedPaths.filterMap fun p => (fs1.get p).map (·.data)
            if c.seedPaths.any (fun p => (fs1.get p).isNone) && !(isDev && decide (onode.data.length < a.sourceTotalSize)) then
              -- a missing seed file: the run fails when it gets there (after in-place reordering);
              -- its writes so far stay.  Modelled coarsely: failure, output content unspecified here.
              ⟨false, fs1, ops1 ++ [FsOp.write c.output]⟩
            else
            let r := Clone.run H decomp [] (honestReadAt archive) (honestReadChunks archive)
              { seedOutput := c.flags.seedOutput, verifyOutput := c.flags.verifyOutput, headerPin := c.pin, blockDev := isDev }
              onode.data seeds
            let wrote := r.log.any fun op => match op with | .write .. => true | .read .. => false
            let resized := decide (r.result = .ok) && !isDev
            let ops2 := ops1 ++ (c.seedPaths.map FsOp.openRead) ++
              (if wrote then [FsOp.write c.output] else []) ++ (if resized then [FsOp.truncate c.output] else [])
            let node := if isDev then Node.blockdev r.output else Node.regular r.output
            ⟨decide (r.result = .ok), fs1.set c.output node, ops2⟩
    | _ => ⟨false, fs, ops0⟩

/-- `Path::with_extension(output, ext)`: the last extension of the file name replaced. -/
def tempPathOf (output : String) : String :=
  let parts := output.splitOn "/"
  let name := parts.getLastD ""
  let dir := parts.dropLast
  let stem := match (name.splitOn ".") with
    | [] => name
    | [x] => x
    | xs => if xs.head! = "" ∧ xs.length = 2 then name else ".".intercalate xs.dropLast
  "/".intercalate (dir ++ [stem ++ "." ++ Gen.tempExtension])

/-- Options of one `bita compress` run with a file input.  `temp` is `Options::temp_file`, which
cli.rs computes as `tempPathOf output`. -/
structure CompressCmd where
  flags : CliFlags
  input : String
  output : String
  temp : String
  opts : CompressOpts
  deriving Repr

/-- `compress_cmd`: open the output first, chunk the input into the temp file, write header, copy
the temp file after it, remove the temp file. -/
def Cli.compress (H : Bytes → Bytes) (comp : Bytes → Bytes) (c : CompressCmd) (fs : Fs) : CmdOut :=
  match OpenFlags.ofExprs compressOpen c.flags, OpenFlags.ofExprs tempOpen c.flags with
  | some fl, some tfl =>
    let ops1 := [FsOp.openWrite c.output fl.describe]
    match fs.openOut c.output fl with
    | none => ⟨false, fs, ops1⟩
    | some fs1 =>
      match fs1.get c.input with
      | none => ⟨false, fs1, ops1⟩
      | some inode =>
        let tmp := c.temp
        let ops2 := ops1 ++ [FsOp.openRead c.input, FsOp.openWrite tmp tfl.describe]
        match fs1.openOut tmp tfl with
        | none => ⟨false, fs1, ops2⟩
        | some fs2 =>
          let (dict, stored) := dictionaryOf H "cli" comp c.opts inode.data
          -- the stored chunks are written from offset 0 over whatever the temp file holds after the
          -- open (nothing, if the open truncates), and are all there before it is re-opened (flush,
          -- F4 repair)
          let old := ((fs2.get tmp).map (·.data)).getD []
          let written := if cliTempFlushedBeforeReturn then stored.flatten else []
          let fs3 := fs2.set tmp (.regular (written ++ old.drop written.length))
          let tmpData := ((fs3.get tmp).map (·.data)).getD []
          let fs4 := fs3.set c.output (.regular (buildHeader H dict none ++ tmpData))
          let fs5 := fs4.remove tmp
          ⟨true, fs5, ops2 ++ [FsOp.write tmp, FsOp.write c.output, FsOp.openRead tmp, FsOp.unlink tmp, FsOp.openRead c.output]⟩
  | _, _ => ⟨false, fs, []⟩

end Bita
