/-
  Model of bitar/src/chunker/{config.rs, rolling_hash.rs, fixed_size.rs, streaming_chunker.rs}.

  The buffer of the streaming chunker is a window of the source: `rest` is the source from
  `chunk_start` on, `have` says how many of its bytes have been read into the buffer so far
  (`buf = rest.take have`).  A read only increases `have`; `split_to(n)` drops `n` bytes of
  `rest`.  The three phases of `RollingHashChunker::next` are transcribed literally, with
  "up to `buf.len()`" expressed by a bound instead of a materialised slice.
-/
import Bita.Model.Hash

namespace Bita

/-- `FilterConfig` (+ `FilterBits.0`). -/
structure FilterConfig where
  bits : Nat
  minSize : Nat
  maxSize : Nat
  window : Nat
  deriving Repr, DecidableEq

/-- `chunker::Config`. -/
inductive Config where
  | buzhash (f : FilterConfig)
  | rollsum (f : FilterConfig)
  | fixed (n : Nat)
  deriving Repr, DecidableEq

/-- `FilterBits::mask`: `!0 >> (32 - bits)` (defined for `1 ≤ bits ≤ 32`; the shift amount
overflows or is out of range otherwise - see `Config.Valid`). -/
def filterMask (bits : Nat) : U32 := (BitVec.allOnes 32) >>> (32 - bits)

/-- Parameters every property assumes ("valid configuration"); outside of them the Rust code
panics or loops (C15 deals with that at the archive boundary). -/
def FilterConfig.Valid (f : FilterConfig) : Prop :=
  1 ≤ f.window ∧ f.window ≤ f.maxSize ∧ f.minSize ≤ f.maxSize ∧ 1 ≤ f.bits ∧ f.bits ≤ 30

/-- RollSum needs no relation between window and maximum chunk size (its hasher needs no warm-up):
this is exactly what `Archive::try_init` accepts since the F8 repair (`configAccepted`). -/
def FilterConfig.ValidRoll (f : FilterConfig) : Prop :=
  1 ≤ f.window ∧ 1 ≤ f.maxSize ∧ f.minSize ≤ f.maxSize ∧ 1 ≤ f.bits ∧ f.bits ≤ 30

def Config.Valid : Config → Prop
  | .buzhash f => f.Valid
  | .rollsum f => f.ValidRoll
  | .fixed n => 1 ≤ n

instance (f : FilterConfig) : Decidable f.Valid := by unfold FilterConfig.Valid; infer_instance
instance (f : FilterConfig) : Decidable f.ValidRoll := by unfold FilterConfig.ValidRoll; infer_instance
instance (c : Config) : Decidable c.Valid := by cases c <;> simp only [Config.Valid] <;> infer_instance

/-- Fields of `RollingHashChunker` fixed at construction. -/
structure RHParams where
  mask : U32
  minSize : Nat
  maxSize : Nat
  limit : Nat        -- `hash_input_limit`
  deriving Repr, DecidableEq

/-- `RollingHashChunker::new`. -/
def RHParams.ofConfig (f : FilterConfig) : RHParams :=
  { mask := filterMask f.bits, minSize := f.minSize, maxSize := f.maxSize,
    limit := if f.minSize ≥ f.window then f.minSize - f.window else 0 }

/-- Mutable part of `RollingHashChunker`: the hasher and the scan offset in the buffer. -/
structure RHState where
  hasher : Hasher
  off : Nat
  deriving Repr, DecidableEq

/-- `while !hasher.init_done() && offset < buf.len() { hasher.init(buf[offset]); offset += 1 }`
over at most `k` available bytes; returns the hasher and the number of bytes consumed. -/
def initLoop : Hasher → Bytes → Nat → Hasher × Nat
  | h, _, 0 => (h, 0)
  | h, [], _ => (h, 0)
  | h, b :: bs, k + 1 =>
    if h.initDone then (h, 0)
    else
      let (h', n) := initLoop (h.init b) bs k
      (h', n + 1)

/-- `buf[a..a+k].iter().for_each(|v| hasher.input(v))` on the bytes at hand. -/
def feedN : Hasher → Bytes → Nat → Hasher
  | h, _, 0 => h
  | h, [], _ => h
  | h, b :: bs, k + 1 => feedN (h.input b) bs k

/-- `scan_for_boundary`'s iterator: feed bytes one by one (at most `k`), stop after the first
whose sum has all mask bits set.  Returns hasher, bytes consumed, found. -/
def scanN (mask : U32) : Hasher → Bytes → Nat → Hasher × Nat × Bool
  | h, _, 0 => (h, 0, false)
  | h, [], _ => (h, 0, false)
  | h, b :: bs, k + 1 =>
    let h' := h.input b
    if h'.sum ||| mask = h'.sum then (h', 1, true)
    else
      let (h'', n, f) := scanN mask h' bs k
      (h'', n + 1, f)

/-- `RollingHashChunker::next` on the buffer `rest.take have`.  Returns the new state and
`some n` when a chunk of `n` bytes is split off. -/
def RHState.next (p : RHParams) (st : RHState) (rest : Bytes) (have_ : Nat) : RHState × Option Nat :=
  -- initialise the hasher if needed
  let (h1, n1) := initLoop st.hasher (rest.drop st.off) (have_ - st.off)
  let off1 := st.off + n1
  -- skip_min_chunk
  let off2 := if 0 < p.limit ∧ off1 < p.limit then min (p.limit - 1) have_ else off1
  let (h3, off3) :=
    if 0 < p.minSize ∧ off2 < p.minSize then
      let inputEnd := min (p.minSize - 1) have_
      (feedN h1 (rest.drop off2) (inputEnd - off2), inputEnd)
    else (h1, off2)
  -- scan_for_boundary
  let minBytes := min p.maxSize have_
  let (h4, n4, found) := scanN p.mask h3 (rest.drop off3) (minBytes - off3)
  let off4 := off3 + n4
  if found ∨ p.maxSize ≤ off4 then (⟨h4, 0⟩, some off4) else (⟨h4, off4⟩, none)

/-- The boxed `Chunker` of a `StreamingChunker`. -/
inductive Chunker where
  | rolling (p : RHParams) (st : RHState)
  | fixed (n : Nat)
  deriving Repr, DecidableEq

/-- `Config::new_chunker` (the chunker part). -/
def Chunker.ofConfig : Config → Chunker
  | .buzhash f => .rolling (RHParams.ofConfig f) ⟨.buz (BuzHash.new f.window), 0⟩
  | .rollsum f => .rolling (RHParams.ofConfig f) ⟨.roll (RollSum.new f.window), 0⟩
  | .fixed n => .fixed n

/-- What `Config::new_chunker` asks the allocator for, in bytes: the state of the rolling hash
(`vec![0u32; window]` and the seeded 256-entry table for BuzHash, `vec![0u8; window]` for RollSum) and
the stream buffer (`BytesMut::with_capacity(REFILL_SIZE)`). -/
def chunkerAllocations : Config → List Nat
  | .buzhash f => [4 * f.window, 4 * 256, Gen.refillSize]
  | .rollsum f => [f.window, Gen.refillSize]
  | .fixed _ => [Gen.refillSize]

/-- `Chunker::next`. -/
def Chunker.next (c : Chunker) (rest : Bytes) (have_ : Nat) : Chunker × Option Nat :=
  match c with
  | .rolling p st =>
    let (st', r) := st.next p rest have_
    (.rolling p st', r)
  | .fixed n => if n ≤ have_ then (.fixed n, some n) else (.fixed n, none)

/-- `StreamingChunker`: `start = chunk_start`, `buf = rest.take have`. -/
structure SC where
  start : Nat
  rest : Bytes
  have_ : Nat
  ch : Chunker
  deriving Repr

/-- Repeated polls while the buffer yields chunks (each poll returns one chunk; the next poll
re-enters `next` on what is left).  `fuel` bounds the number of chunks: a chunk of length 0
(invalid configuration) stops the model instead of looping. -/
def SC.drain : Nat → SC → List (Nat × Nat) × SC
  | 0, sc => ([], sc)
  | fuel + 1, sc =>
    if sc.have_ = 0 then ([], sc)                   -- `if !me.buf.is_empty()`
    else
      match sc.ch.next sc.rest sc.have_ with
      | (ch', some n) =>
        if n = 0 then ([], { sc with ch := ch' })   -- would loop for ever (F8.b)
        else
          let (cs, sc') := SC.drain fuel { start := sc.start + n, rest := sc.rest.drop n,
                                           have_ := sc.have_ - n, ch := ch' }
          ((sc.start, n) :: cs, sc')
      | (ch', none) => ([], { sc with ch := ch' })

/-- What one `read_buf` on the source does: `Pending`, or up to `n ≥ 1` more bytes
(0 bytes exactly when the source is exhausted). -/
inductive Rd where
  | pending
  | bytes (n : Nat)
  deriving Repr, DecidableEq

/-- `StreamingChunker::poll_next` driven to the end of the read script: the `(offset, length)`
of every chunk emitted, in order. -/
def SC.run : SC → List Rd → List (Nat × Nat)
  | sc, script =>
    let (cs, sc1) := SC.drain (sc.have_ + 1) sc
    match script with
    | [] => cs                                   -- script exhausted before EOF: nothing more observed
    | .pending :: s => cs ++ SC.run sc1 s        -- `Poll::Pending`; polled again from the top
    | .bytes n :: s =>
      if sc1.have_ = sc1.rest.length then
        -- read returns 0: end of source; the tail (if any) is the last chunk
        cs ++ (if sc1.have_ = 0 then [] else [(sc1.start, sc1.have_)])
      else
        cs ++ SC.run { sc1 with have_ := sc1.have_ + min (max n 1) (sc1.rest.length - sc1.have_) } s

/-! ### The buffer of the streaming chunker (C15: memory while scanning a seed)

`poll_next` asks for more room only when fewer than `REFILL_SIZE` bytes are spare
(`if buf.capacity() < buf.len() + REFILL_SIZE { buf.reserve(REFILL_SIZE) }`), and `read_buf` fills at
most the spare capacity.  `BytesMut::reserve` is a dependency (bytes crate): it is modelled by its
amortised growth - at least what is asked for, at most twice the old capacity - and trusted. -/

/-- Capacity after the reserve step of `poll_next`. -/
def capAfterReserve (cap len : Nat) : Nat :=
  if cap < len + Gen.refillSize then max (2 * cap) (len + Gen.refillSize) else cap

/-- The scan with its buffer: as `SC.run`, but a read delivers at most the spare capacity, and
the `(capacity, buffered bytes)` after every read is recorded. -/
def SC.caps : SC → Nat → List Rd → List (Nat × Nat)
  | sc, cap, script =>
    let (_, sc1) := SC.drain (sc.have_ + 1) sc
    match script with
    | [] => []
    | .pending :: s => SC.caps sc1 cap s
    | .bytes n :: s =>
      let cap' := capAfterReserve cap sc1.have_
      if sc1.have_ = sc1.rest.length then []
      else
        let got := min (min (max n 1) (cap' - sc1.have_)) (sc1.rest.length - sc1.have_)
        (cap', sc1.have_ + got) :: SC.caps { sc1 with have_ := sc1.have_ + got } cap' s

/-- Chunk a whole source under a read script. -/
def chunkStream (cfg : Config) (data : Bytes) (script : List Rd) : List (Nat × Nat) :=
  SC.run ⟨0, data, 0, Chunker.ofConfig cfg⟩ script

/-- Reference delivery: everything in one read, then EOF. -/
def chunkAll (cfg : Config) (data : Bytes) : List (Nat × Nat) :=
  chunkStream cfg data [.bytes data.length, .bytes 1]

end Bita
