/-
  Model of the two archive writers: bitar/src/api/compress.rs::create_archive and
  src/compress_cmd.rs::{chunk_input, compress_cmd} (same pipeline, written twice in the Rust).

  Stage level: chunk -> strong hash -> dedup / chunk order -> compress -> stored-bytes rule ->
  descriptors with running offset -> dictionary -> header ++ chunk data.  `H` (strong hash) and
  `comp` (the codec) are parameters.  The order-preserving `buffered(n)` stages and the temp-file
  hand-off are the subject of `Bita.Model.Schedule`; here their result (inputs in order) is used.
-/
import Bita.Model.Archive
import Bita.Gen.Facts

namespace Bita
open Proto

/-- The stored-bytes rule as written in the source (`Gen.Facts`): library `if compressed.len() <
chunk.len() { compressed } else { raw }`, CLI `use_uncompressed = compressed.len() >= chunk_len`.
`none` if the extracted comparison is not one the model knows. -/
def storeCompressed (writer : String) (compressedLen chunkLen : Nat) : Option Bool :=
  if writer = "lib" then
    (if Gen.libStoreCompressedIf = "<" then some (decide (compressedLen < chunkLen))
     else if Gen.libStoreCompressedIf = "<=" then some (decide (compressedLen ≤ chunkLen))
     else none)
  else
    (if Gen.cliStoreRawIf = ">=" then some (!decide (compressedLen ≥ chunkLen))
     else if Gen.cliStoreRawIf = ">" then some (!decide (compressedLen > chunkLen))
     else none)

/-- Dedup table: unique chunks in first-occurrence order (keyed by the *full* hash) and, for
every source chunk, the index of its unique chunk (`chunk_order`). -/
def dedup (H : Bytes → Bytes) (chunks : List Bytes) : List Bytes × List Nat :=
  chunks.foldl (fun (acc : List Bytes × List Nat) c =>
    match acc.1.findIdx? (fun u => H u = H c) with
    | some i => (acc.1, acc.2 ++ [i])
    | none => (acc.1 ++ [c], acc.2 ++ [acc.1.length])) ([], [])

/-- Stored bytes of every unique chunk. -/
def storedBytes (writer : String) (comp : Bytes → Bytes) (c : Bytes) : Bytes :=
  let z := comp c
  match storeCompressed writer z.length c.length with
  | some true => z
  | _ => c

/-- Descriptors with the running `archive_offset`. -/
def descriptorsOf (H : Bytes → Bytes) (hashLen : Nat) (uniq stored : List Bytes) : List ChunkDescriptor :=
  ((uniq.zip stored).foldl (fun (acc : List ChunkDescriptor × Nat) e =>
    (acc.1 ++ [{ checksum := hashTruncate (H e.1) hashLen, archiveSize := e.2.length,
                 archiveOffset := acc.2, sourceSize := e.1.length }], acc.2 + e.2.length)) ([], 0)).1

def paramsOf (cfg : Config) (hashLen : Nat) : ChunkerParameters :=
  match cfg with
  | .buzhash f => ⟨f.bits, f.minSize, f.maxSize, f.window, hashLen, Gen.enum_ChunkingAlgorithm_BUZHASH⟩
  | .rollsum f => ⟨f.bits, f.minSize, f.maxSize, f.window, hashLen, Gen.enum_ChunkingAlgorithm_ROLLSUM⟩
  | .fixed n => ⟨0, 0, n, 0, hashLen, Gen.enum_ChunkingAlgorithm_FIXED_SIZE⟩

/-- Options of a compress run that end up in the archive. -/
structure CompressOpts where
  cfg : Config
  hashLen : Nat
  compression : Compr              -- (algorithm code, level) or none
  metadata : List (Bytes × Bytes)  -- ascending by key (BTreeMap)
  deriving Repr

def dictionaryOf (H : Bytes → Bytes) (writer : String) (comp : Bytes → Bytes) (o : CompressOpts)
    (src : Bytes) : ChunkDictionary × List Bytes :=
  let chunks := (chunkAll o.cfg src).map fun c => slice src c.1 c.2
  let (uniq, order) := dedup H chunks
  let stored := uniq.map (storedBytes writer (if o.compression.isSome then comp else id))
  ({ applicationVersion := Gen.pkgVersion.toUTF8.toList
     sourceChecksum := H src
     sourceTotalSize := src.length
     chunkerParams := some (paramsOf o.cfg o.hashLen)
     chunkCompression := some (match o.compression with
       | some (c, l) => ⟨c, l⟩
       | none => ⟨Gen.enum_CompressionType_NONE, 0⟩)
     rebuildOrder := order
     chunkDescriptors := descriptorsOf H o.hashLen uniq stored
     metadata := o.metadata }, stored)

/-- The archive a writer produces (`header ++ chunk data`). -/
def createArchive (H : Bytes → Bytes) (writer : String) (comp : Bytes → Bytes) (o : CompressOpts)
    (src : Bytes) : Bytes :=
  let (dict, stored) := dictionaryOf H writer comp o src
  buildHeader H dict none ++ stored.flatten

end Bita
