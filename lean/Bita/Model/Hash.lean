/-
  Model of bitar/src/rolling_hash/{rollsum.rs, buzhash.rs}.

  Hash values are `BitVec 32` (Rust `u32` with wrapping arithmetic / `rotate_left`).
  The ring buffer + index of the Rust code is modelled as a FIFO list read "oldest first":
  reading the ring from `index` cyclically is exactly that list, for every interleaving of
  `init` and `input` (both write at `index` and advance it).
-/
import Bita.Model.Basic
import Bita.Gen.Consts

namespace Bita

abbrev U32 := BitVec 32

/-- Rust `u32::rotate_left(n)` (the amount is taken modulo 32). -/
def rotl (x : U32) (n : Nat) : U32 := x.rotateLeft n

/-! ## RollSum -/

/-- `RollSum { s1, s2, window, offset }`; `win` is the window oldest-first. -/
structure RollSum where
  s1 : U32
  s2 : U32
  win : List UInt8
  deriving Repr, DecidableEq

def charOffset : U32 := BitVec.ofNat 32 Gen.charOffset

/-- `RollSum::new(window_size)` with the arithmetic of the release profile (wrapping). -/
def RollSum.new (w : Nat) : RollSum :=
  { s1 := BitVec.ofNat 32 w * charOffset
    s2 := BitVec.ofNat 32 w * BitVec.ofNat 32 (w - 1) * charOffset
    win := List.replicate w 0 }

/-- `RollSum::input` (`add(drop, add)` then the ring update). Requires a window ≥ 1
(with an empty window the Rust indexes out of bounds). -/
def RollSum.input (h : RollSum) (b : UInt8) : RollSum :=
  let drop : U32 := BitVec.ofNat 32 (h.win.headD 0).toNat
  let s1 := h.s1 + BitVec.ofNat 32 b.toNat - drop
  let s2 := h.s2 + s1 - BitVec.ofNat 32 h.win.length * (drop + charOffset)
  { s1 := s1, s2 := s2, win := h.win.tail ++ [b] }

/-- `RollSum::sum`. -/
def RollSum.sum (h : RollSum) : U32 := (h.s1 <<< 16) ||| (h.s2 &&& 0xffff#32)

/-! ## BuzHash -/

/-- `generate_seeded_table`: `BUZHASH_TABLE[b] ^ BUZHASH_SEED`. -/
def buzTable (b : UInt8) : U32 :=
  BitVec.ofNat 32 (Gen.buzhashTable[b.toNat]!) ^^^ BitVec.ofNat 32 Gen.buzhashSeed

/-- `BuzHash { buf, index, window, hash_sum, window_full, last_input, repeated_input }`.
`win` is `buf` read from `index`, oldest first (always `window` long); `filled` counts the
`init` calls so far (Rust: `index` while `!window_full`). -/
structure BuzHash where
  win : List U32
  window : Nat
  filled : Nat
  sum : U32
  full : Bool
  last : UInt8
  rep : Nat
  deriving Repr, DecidableEq

def BuzHash.new (w : Nat) : BuzHash :=
  { win := List.replicate w 0, window := w, filled := 0, sum := 0, full := false, last := 0, rep := 0 }

/-- `BuzHash::init`: warm-up, no rolling.  (After the F5 repair it also maintains the repeat
counter, exactly as `input` does.) -/
def BuzHash.init (h : BuzHash) (b : UInt8) : BuzHash :=
  if h.full then h else
  let (last, rep) := if b = h.last then (h.last, h.rep + 1) else (b, 0)
  let v := buzTable b
  let shift := h.window - (h.filled + 1)
  { h with
    sum := h.sum ^^^ rotl v shift
    full := decide (h.window - 1 ≤ h.filled)
    win := h.win.tail ++ [v]
    filled := if h.filled + 1 ≥ h.window then 0 else h.filled + 1
    last := last, rep := rep }

/-- `BuzHash::input`: roll one byte, unless the window is (believed to be) full of that byte. -/
def BuzHash.input (h : BuzHash) (b : UInt8) : BuzHash :=
  let (last, rep) := if b = h.last then (h.last, h.rep + 1) else (b, 0)
  if rep < h.window then
    let v := buzTable b
    let out := h.win.headD 0
    { h with
      sum := rotl h.sum 1 ^^^ rotl out h.window ^^^ v
      win := h.win.tail ++ [v]
      last := last, rep := rep }
  else { h with last := last, rep := rep }

/-! ## The `RollingHash` trait object used by the chunker -/

inductive Hasher where
  | roll (h : RollSum)
  | buz (h : BuzHash)
  deriving Repr, DecidableEq

def Hasher.initDone : Hasher → Bool
  | .roll _ => true
  | .buz h => h.full

def Hasher.init : Hasher → UInt8 → Hasher
  | .roll h, _ => .roll h          -- `unimplemented!("not used")`: never called, `init_done` is true
  | .buz h, b => .buz (h.init b)

def Hasher.input : Hasher → UInt8 → Hasher
  | .roll h, b => .roll (h.input b)
  | .buz h, b => .buz (h.input b)

def Hasher.sum : Hasher → U32
  | .roll h => h.sum
  | .buz h => h.sum

end Bita
