/-
  The two pieces of runtime the properties about "every schedule / every timing" rest on, as
  small state machines (modelled from the tokio 1.4x and futures-util sources / documentation;
  trusted base, tied by fault-injection and repeated perturbed runs at CLI level):

  * `tokio::fs::File`: a write is handed to a blocking thread and *returns before it is carried
    out*; its failure is remembered and reported by the next `write` or `flush` only; `seek` and
    `set_len` wait for it but do not report it; dropping the handle reports nothing.
  * `futures::StreamExt::buffered(n)` / `buffer_unordered(n)`: at most `n` tasks in flight; an
    adversarial scheduler completes any of them at any time.
-/
import Bita.Model.Output
import Bita.Gen.Facts

namespace Bita

/-! ## tokio::fs::File (write path) -/

structure TFile where
  data : Bytes                       -- what the OS file holds
  pos : Nat
  inflight : Option (Nat × Bytes)    -- write handed over, not yet carried out
  lastErr : Bool                     -- `last_write_err`
  performed : Nat                    -- writes carried out (or failed) so far
  deriving Repr, DecidableEq

def TFile.new (data : Bytes) : TFile := ⟨data, 0, none, false, 0⟩

/-- The blocking thread carries out the in-flight write; the write with index `failAt` fails. -/
def TFile.complete (failAt : Option Nat) (f : TFile) : TFile :=
  match f.inflight with
  | none => f
  | some (off, b) =>
    if failAt = some f.performed then { f with inflight := none, lastErr := true, performed := f.performed + 1 }
    else { f with data := writeAt f.data off b, inflight := none, performed := f.performed + 1 }

/-- `seek(Start(off))`: waits for the in-flight operation, records (does not report) its error. -/
def TFile.seek (failAt : Option Nat) (f : TFile) (off : Nat) : TFile :=
  { (f.complete failAt) with pos := off }

/-- `write_all(b)`: reports a remembered error; otherwise hands the write over and returns. -/
def TFile.write (failAt : Option Nat) (f : TFile) (b : Bytes) : TFile × Bool :=
  let f1 := f.complete failAt
  if f1.lastErr then ({ f1 with lastErr := false }, false)
  else ({ f1 with inflight := some (f1.pos, b), pos := f1.pos + b.length }, true)

/-- `flush()`: waits for the in-flight write and reports its (or a remembered) error. -/
def TFile.flush (failAt : Option Nat) (f : TFile) : TFile × Bool :=
  let f1 := f.complete failAt
  if f1.lastErr then ({ f1 with lastErr := false }, false) else (f1, true)

/-- `set_len(n)`: waits for the in-flight write, keeps its error to itself, resizes. -/
def TFile.setLen (failAt : Option Nat) (f : TFile) (n : Nat) : TFile :=
  let f1 := f.complete failAt
  { f1 with data := Bita.setLen f1.data n }

/-- Dropping the handle: nothing is waited for; what the OS file holds *at that moment* is what a
re-open by path sees.  (The in-flight write may be carried out later.) -/
def TFile.dropNow (f : TFile) : Bytes := f.data

/-- The tail of `clone_archive` on the output: the chunk writes `(offset, bytes)` in order, then
(if the source flushes, `Gen.cloneOutputFlushedBeforeResize`) a flush, then `set_len`.
Returns whether success is reported, and the file. -/
def cloneTail (flushes : Bool) (failAt : Option Nat) (f : TFile) (writes : List (Nat × Bytes)) (total : Nat) : Bool × Bytes :=
  let rec go (f : TFile) : List (Nat × Bytes) → TFile × Bool
    | [] => (f, true)
    | (off, b) :: ws =>
      let (f2, ok) := (f.seek failAt off).write failAt b
      if ok then go f2 ws else (f2, false)
  let (f1, ok) := go f writes
  if !ok then (false, f1.data) else
  let (f2, ok2) := if flushes then f1.flush failAt else (f1, true)
  if !ok2 then (false, f2.data) else
  (true, (f2.setLen failAt total).data)

/-- `chunk_input`'s use of the temp file: sequential `write_all`s, then (if the source flushes,
`Gen.cliTempFlushedBeforeReturn`) a flush, then the handle is dropped and the file re-opened by
path.  `late` says whether the blocking thread got to the last write before the re-open.
Returns what the re-open sees. -/
def tempFileSeen (flushes : Bool) (late : Bool) (chunks : List Bytes) : Bytes :=
  let f := chunks.foldl (fun f b => (f.write none b).1) (TFile.new [])
  let f := if flushes then (f.flush none).1 else f
  if late then f.dropNow else (f.complete none).dropNow

/-! ## buffered(n) / buffer_unordered(n) -/

/-- What the scheduler does next. -/
inductive SchedEv where
  | poll                    -- the consumer polls the stream
  | finish (i : Nat)        -- the i-th in-flight task (in submission order) completes
  deriving Repr, DecidableEq

structure BufSt (α : Type) where
  input : List α                 -- not yet submitted
  inflight : List (α × Bool)     -- submitted, in submission order; true = completed
  out : List α                   -- emitted so far
  deriving Repr

/-- One event of `buffered(n)`: a poll first tops the window up to `n` tasks, then emits the
*head* of the window if it has completed. -/
def BufSt.stepOrdered {α : Type} (n : Nat) (s : BufSt α) : SchedEv → BufSt α
  | .finish i => { s with inflight := s.inflight.mapIdx fun j e => if j = i then (e.1, true) else e }
  | .poll =>
    let k := n - s.inflight.length
    let s1 := { s with input := s.input.drop k, inflight := s.inflight ++ (s.input.take k).map (·, false) }
    match s1.inflight with
    | (x, true) :: rest => { s1 with inflight := rest, out := s1.out ++ [x] }
    | _ => s1

/-- One event of `buffer_unordered(n)`: a poll emits *any* completed task (the first found). -/
def BufSt.stepUnordered {α : Type} (n : Nat) (s : BufSt α) : SchedEv → BufSt α
  | .finish i => { s with inflight := s.inflight.mapIdx fun j e => if j = i then (e.1, true) else e }
  | .poll =>
    let k := n - s.inflight.length
    let s1 := { s with input := s.input.drop k, inflight := s.inflight ++ (s.input.take k).map (·, false) }
    match s1.inflight.findIdx? (·.2) with
    | some j => { s1 with inflight := s1.inflight.eraseIdx j, out := s1.out ++ ((s1.inflight[j]?).map (·.1)).toList }
    | none => s1

/-- The stage a pipeline uses, by the combinator found in the source. -/
def stageRun {α : Type} (combinator : String) (n : Nat) (xs : List α) (sched : List SchedEv) : BufSt α :=
  sched.foldl (fun s e => if combinator = "buffered" then s.stepOrdered n e else s.stepUnordered n e) ⟨xs, [], []⟩

end Bita
