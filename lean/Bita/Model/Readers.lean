/-
  Model of bitar/src/archive_reader/{http_reader.rs, http_range_request.rs, io_reader.rs}.

  The transport (reqwest/hyper, or the OS file) is replaced by a *script*: what each
  attempt / each read call does.  Everything else is transcribed from the Rust.
-/
import Bita.Model.Basic
import Bita.Gen.Facts

namespace Bita

/-! ## HTTP: `ChunkReader` + `HttpRangeRequest` -/

/-- `ChunkReader::adjacent_reads`: `windows(2).take_while(adjacent).count() + 1`. -/
def adjacentReads : List ChunkOffset → Nat
  | a :: b :: rest => if a.offset + a.size = b.offset then adjacentReads (b :: rest) + 1 else 1
  | _ => 1

/-- The text of the `Range` header built in `HttpRangeRequest` (`end_offset = offset+size-1`). -/
def rangeHeader (offset size : Nat) : String :=
  s!"bytes={offset}-{offset + size - 1}"

/-- What the transport does with one HTTP request (one *attempt*). -/
inductive Resp where
  /-- the request future fails (connection refused / reset before a response) -/
  | refuse
  /-- the whole body the server has for this range arrives, in fragments of these sizes -/
  | full (frags : List Nat)
  /-- only the first `n` bytes of that body arrive (fragmented), then the body stream
      fails (`cut = true`) or ends cleanly (`cut = false`) -/
  | part (n : Nat) (frags : List Nat) (cut : Bool)
  deriving Repr, DecidableEq

/-- One item of the `read_chunks` stream as seen through `StreamUntilFirstError`. -/
inductive Item where
  | chunk (data : Bytes)
  | errHttp        -- `HttpReaderError::Http`
  | errEnd         -- `HttpReaderError::UnexpectedEnd`
  | errIo          -- `io::Error` other than EOF (local reader)
  | errEof         -- `io::ErrorKind::UnexpectedEof` (local reader)
  | panic          -- arithmetic overflow / index panic (dev profile)
  | stall          -- model artefact: the script ended before the run did
  deriving Repr, DecidableEq

structure Out where
  items : List Item
  reqs : List (Nat × Nat)     -- (offset, size) of every range request issued, in order
  deriving Repr, DecidableEq

/-- State of `ChunkReader` between polls. `req = some (offset, size, retries_left)`. -/
structure CR where
  chunks : List ChunkOffset   -- `chunks[chunk_index..]`
  buf : Bytes                 -- `chunk_buf`
  adj : Nat                   -- `num_adjacent_reads`
  req : Option (Nat × Nat × Nat)
  deriving Repr

/-- Top of the poll loop, repeated: hand out chunks while the buffer holds the next one.
Returns the emitted items, the new state, and whether a panic stopped it
(`num_adjacent_reads -= 1` at 0). -/
def CR.drain : List ChunkOffset → Bytes → Nat → Option (Nat × Nat × Nat) → List Item × CR × Bool
  | [], buf, adj, req => ([], ⟨[], buf, adj, req⟩, false)
  | c :: cs, buf, adj, req =>
    if c.size ≤ buf.length then
      if adj = 0 then ([Item.panic], ⟨c :: cs, buf, adj, req⟩, true)
      else
        let adj' := adj - 1
        let req' := if adj' = 0 then none else req
        let (its, st, p) := CR.drain cs (buf.drop c.size) adj' req'
        (Item.chunk (buf.take c.size) :: its, st, p)
    else ([], ⟨c :: cs, buf, adj, req⟩, false)

/-- Result of feeding the fragments of one response into the reader. -/
inductive FeedRes where
  | runDone (items : List Item) (st : CR)          -- request dropped (`request = None`); rest of body ignored
  | bodyDone (items : List Item) (st : CR)         -- all fragments consumed, request still open
  | stop (items : List Item)                        -- a panic item was produced
  deriving Repr

/-- `if item.len() > self.size { item.truncate(self.size) }` -/
def clipFrag (size : Nat) (f : Bytes) : Bytes :=
  if Gen.httpFragmentClipped = true ∧ size < f.length then f.take size else f

/-- `HttpRangeRequest::poll_read_fail`, `Stream` arm, for each fragment, followed by the
`ChunkReader` loop (`chunk_buf.extend`, then hand out chunks). -/
def CR.feed : List Bytes → CR → FeedRes
  | [], st => .bodyDone [] st
  | f :: fs, st =>
    match st.req with
    | none => .runDone [] st
    | some (off, size, rl) =>
      -- a fragment longer than what is still requested is truncated (F8.h repair)
      let f := clipFrag size f
      let (its, st', p) := CR.drain st.chunks (st.buf ++ f) st.adj (some (off + f.length, size - f.length, rl))
      if p then .stop its
      else match st'.req with
        | none => .runDone its st'
        | some _ =>
          match CR.feed fs st' with
          | .runDone its2 st2 => .runDone (its ++ its2) st2
          | .bodyDone its2 st2 => .bodyDone (its ++ its2) st2
          | .stop its2 => .stop (its ++ its2)

/-- `if self.request.is_none()`: new range request for the maximal adjacent run. -/
def CR.ensureReq (retry : Nat) (st : CR) : CR :=
  match st.req, st.chunks with
  | some _, _ => st
  | none, [] => st
  | none, next :: rest =>
    let adj := adjacentReads (next :: rest)
    let last := ((next :: rest).drop (adj - 1)).headD next
    { chunks := st.chunks, buf := [], adj := adj,
      req := some (next.offset, last.stop - next.offset, retry) }

/-- The whole `ChunkReader` stream, one script element per HTTP attempt.
`serve off size` is the complete body the server would send for that range.
Every attempt is logged in `reqs` with the bounds it was issued with. -/
def CR.run (serve : Nat → Nat → Bytes) (retry : Nat) : List Resp → CR → Out
  | script, st =>
    -- top of loop: hand out what the buffer holds
    let (its0, st0, p0) := CR.drain st.chunks st.buf st.adj st.req
    if p0 then ⟨its0, []⟩ else
    if st0.chunks.isEmpty then ⟨its0, []⟩ else            -- `Poll::Ready(None)`
    let st1 := CR.ensureReq retry st0
    match st1.req with
    | none => ⟨its0, []⟩   -- unreachable: chunks non-empty
    | some (off, size, rl) =>
      -- `RequestState::Init`: `end_offset = offset + size - 1` (u64)
      if off + size = 0 then ⟨its0 ++ [Item.panic], []⟩ else
      match script with
      | [] => ⟨its0 ++ [Item.stall], [(off, size)]⟩
      | r :: script' =>
        match r with
        | .refuse =>
          -- `poll_read`: retry or give the error to the caller
          if rl = 0 then ⟨its0 ++ [Item.errHttp], [(off, size)]⟩
          else
            let o := CR.run serve retry script' { st1 with req := some (off, size, rl - 1) }
            ⟨its0 ++ o.items, (off, size) :: o.reqs⟩
        | .full frags =>
          match CR.feed (splitBy frags (serve off size)) st1 with
          | .stop its => ⟨its0 ++ its, [(off, size)]⟩
          | .runDone its st2 =>
            let o := CR.run serve retry script' st2
            ⟨its0 ++ its ++ o.items, (off, size) :: o.reqs⟩
          | .bodyDone its _ => ⟨its0 ++ its ++ [Item.errEnd], [(off, size)]⟩
        | .part n frags cut =>
          match CR.feed (splitBy frags ((serve off size).take n)) st1 with
          | .stop its => ⟨its0 ++ its, [(off, size)]⟩
          | .runDone its st2 =>
            let o := CR.run serve retry script' st2
            ⟨its0 ++ its ++ o.items, (off, size) :: o.reqs⟩
          | .bodyDone its st2 =>
            if cut then
              match st2.req with
              | some (off2, size2, rl2) =>
                if rl2 = 0 then ⟨its0 ++ its ++ [Item.errHttp], [(off, size)]⟩
                else
                  let o := CR.run serve retry script' { st2 with req := some (off2, size2, rl2 - 1) }
                  ⟨its0 ++ its ++ o.items, (off, size) :: o.reqs⟩
              | none => ⟨its0 ++ its, [(off, size)]⟩   -- unreachable (bodyDone keeps the request)
            else ⟨its0 ++ its ++ [Item.errEnd], [(off, size)]⟩

/-- `HttpReader::read_chunks(chunks)` with retry budget `retry`. -/
def httpReadChunks (serve : Nat → Nat → Bytes) (retry : Nat) (script : List Resp)
    (chunks : List ChunkOffset) : Out :=
  CR.run serve retry script ⟨chunks, [], 0, none⟩

/-- `HttpReader::read_at` → `HttpRangeRequest::single`: every retry starts from scratch;
an over-long body is silently truncated, a short one is `UnexpectedEnd`. -/
def httpReadAt (serve : Nat → Nat → Bytes) (retry : Nat) (offset size : Nat) :
    List Resp → Item × List (Nat × Nat)
  | [] => (Item.stall, [])
  | r :: script' =>
    if offset + size = 0 then (Item.panic, []) else
    let done (body : Bytes) : Item :=
      if size ≤ body.length then Item.chunk (body.take size) else Item.errEnd
    let retryOr (script' : List Resp) : Item × List (Nat × Nat) :=
      if retry = 0 then (Item.errHttp, [(offset, size)])
      else
        let (it, rq) := httpReadAt serve (retry - 1) offset size script'
        (it, (offset, size) :: rq)
    match r with
    | .refuse => retryOr script'
    | .full _ => (done (serve offset size), [(offset, size)])
    | .part n _ cut =>
      if cut then retryOr script' else (done ((serve offset size).take n), [(offset, size)])

/-! ## Local files: `IoReader` / `IoChunkReader` -/

/-- What one `poll_read` on the underlying reader does: `Pending`, an error, or up to `n`
bytes (`n = 0`, or a cursor at the end of the file, reads nothing). -/
inductive ReadEv where
  | pending
  | bytes (n : Nat)
  | err
  deriving Repr, DecidableEq

inductive FillRes where
  | ok (data : Bytes) (rest : List ReadEv)
  | fail (it : Item)
  deriving Repr

/-- `IoChunkReaderState::Read` repeated until `buf_offset >= size` (after a seek to `pos`). -/
def ioFill (file : Bytes) (pos need : Nat) (acc : Bytes) : List ReadEv → FillRes
  | [] => .fail Item.stall
  | .pending :: s => ioFill file pos need acc s            -- re-entered in the same state
  | .err :: _ => .fail Item.errIo
  | .bytes n :: s =>
    let got := slice file (pos + acc.length) (min n (need - acc.length))
    if got.isEmpty then .fail Item.errEof
    else
      let acc' := acc ++ got
      if need ≤ acc'.length then .ok acc' s else ioFill file pos need acc' s

/-- `IoChunkReader::poll_chunk` over the whole list.  `buf` is the reader's buffer as left by
the previous chunk (a zero-size request hands out that stale buffer). -/
def ioReadChunks (file : Bytes) : List ChunkOffset → Bytes → List ReadEv → List Item
  | [], _, _ => []
  | c :: cs, buf, script =>
    if c.size = 0 then Item.chunk buf :: ioReadChunks file cs buf script
    else
      match ioFill file c.offset c.size [] script with
      | .ok data rest => Item.chunk data :: ioReadChunks file cs data rest
      | .fail it => [it]

/-- `IoReader::read_at`: seek, then `read_buf` into a buffer of capacity `size` until full. -/
def ioReadAt (file : Bytes) (offset size : Nat) (script : List ReadEv) : Item :=
  if size = 0 then Item.chunk [] else
  match ioFill file offset size [] script with
  | .ok data _ => Item.chunk data
  | .fail it => it

/-! ## Resource use of the header reads (`read_at` with a size taken from an unverified header) -/

/-- `BytesMut::with_capacity(min(size, MAX_PREALLOCATE))` (whether the `min` is there is read from
the source). -/
def ioCapInit (size : Nat) : Nat :=
  if Gen.ioInitialCapacityBounded then min size Gen.ioMaxPreallocate else size

/-- `buf.reserve(min(size - buf.len(), MAX_PREALLOCATE))` when the buffer is full: the capacity
asked for. -/
def ioCapGrow (size len : Nat) : Nat :=
  len + (if Gen.ioGrowBounded then min (size - len) Gen.ioMaxPreallocate else size - len)

/-- The loop of `IoReader::read_at` seen by the allocator: every capacity it asks for, paired with
the number of bytes it holds at that moment.  A read fills at most the spare capacity and at most
what the file has. -/
def ioCapsLoop (file : Bytes) (offset size : Nat) : Nat → Nat → List ReadEv → List (Nat × Nat)
  | _, _, [] => []
  | len, cap, ev :: s =>
    if size ≤ len then []
    else
      let cap' := if cap = len then ioCapGrow size len else cap
      let asked : List (Nat × Nat) := if cap = len then [(cap', len)] else []
      match ev with
      | .pending => asked ++ ioCapsLoop file offset size len cap' s
      | .err => asked
      | .bytes n =>
        let got := min (min n (cap' - len)) (file.length - (offset + len))
        if got = 0 then asked else asked ++ ioCapsLoop file offset size (len + got) cap' s

def ioReadAtCaps (file : Bytes) (offset size : Nat) (script : List ReadEv) : List (Nat × Nat) :=
  (ioCapInit size, 0) :: ioCapsLoop file offset size 0 (ioCapInit size) script

/-- `HttpRangeRequest::single_fail`: body frames (their sizes) are appended until
`body.len() <op> size` (operator read from the source); the number of bytes buffered. -/
def httpSingleStop (have_ size : Nat) : Bool :=
  if Gen.httpSingleStopIf = ">=" then decide (have_ ≥ size)
  else if Gen.httpSingleStopIf = "==" then decide (have_ = size)
  else if Gen.httpSingleStopIf = ">" then decide (have_ > size)
  else false

def httpSingleTake (size : Nat) : Nat → List Nat → Nat
  | acc, [] => acc
  | acc, f :: fs => if httpSingleStop (acc + f) size then acc + f else httpSingleTake size (acc + f) fs

end Bita
