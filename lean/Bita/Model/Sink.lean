/-
  Model of `LimitedOutput` (bitar/src/compression.rs): the `std::io::Write` sink every decompressor
  writes into, which takes no more than the size declared for the chunk (F11 repair).  A decompressor
  is modelled by the sequence of `write` calls it makes (any sequence: the codecs are not modelled);
  `write_all`-style drivers stop at the first refused write.
-/
import Bita.Model.Basic

namespace Bita

/-- `LimitedOutput { buf, limit }`. -/
structure Sink where
  buf : Bytes
  limit : Nat
  deriving Repr, DecidableEq

/-- `LimitedOutput::write`: all of `data` or an error (`limit - buf.len()` cannot underflow: the
buffer never holds more than `limit`, see `Proofs.sink_states_le`). -/
def Sink.write (s : Sink) (data : Bytes) : Option Sink :=
  if data.length > s.limit - s.buf.length then none else some { s with buf := s.buf ++ data }

/-- The writes of one decompression, in order, into `LimitedOutput { buf: Vec::with_capacity(limit),
limit }`: the buffer, or the index of the write that was refused. -/
def Sink.runFrom (s : Sink) : List Bytes → Nat → Except Nat Bytes
  | [], _ => .ok s.buf
  | p :: ps, i =>
    match s.write p with
    | none => .error i
    | some s' => Sink.runFrom s' ps (i + 1)

def Sink.run (limit : Nat) (pieces : List Bytes) : Except Nat Bytes :=
  Sink.runFrom ⟨[], limit⟩ pieces 0

/-- Length of the buffer after every accepted write (the memory the sink holds over time). -/
def Sink.statesFrom (s : Sink) : List Bytes → List Nat
  | [] => []
  | p :: ps =>
    match s.write p with
    | none => []
    | some s' => s'.buf.length :: Sink.statesFrom s' ps

def Sink.states (limit : Nat) (pieces : List Bytes) : List Nat := Sink.statesFrom ⟨[], limit⟩ pieces

end Bita
