/-
  Model of bitar/src/{header.rs, archive.rs} and of src/info_cmd.rs::print_archive.

  Every Rust operation on this path that can panic on untrusted input - slice ranges, `+` on
  declared sizes/offsets, indexing by a declared index, shifts by a declared amount, division by
  a declared count, an allocation of a declared size - is an explicit branch of the model
  (`Outcome.panic` / `Outcome.abort`), so that "never panics" is a statement about reachable
  outcomes (C15).  The strong hash `H` is a parameter.
-/
import Bita.Model.Proto
import Bita.Model.Chunker
import Bita.Model.Index
import Bita.Gen.Facts

namespace Bita
open Proto

def le64 (n : Nat) : Bytes := (List.range 8).map fun i => UInt8.ofNat (n / 2 ^ (8 * i) % 256)

def fromLe (b : Bytes) : Nat := b.foldr (fun x acc => x.toNat + 256 * acc) 0

def magicBytes : Bytes := Gen.archiveMagic.map UInt8.ofNat
def legacyMagicBytes : Bytes := Gen.legacyMagic.map UInt8.ofNat

/-- `header::build(dictionary, chunk_data_offset)`. -/
def buildHeader (H : Bytes → Bytes) (dict : ChunkDictionary) (off : Option Nat) : Bytes :=
  let d := encodeDictionary dict
  let pre := magicBytes ++ le64 d.length ++ d
  let body := pre ++ le64 (off.getD (pre.length + 8 + 64))
  body ++ H body

inductive Outcome (α : Type) where
  | ok (a : α)
  | invalid (why : String)       -- `ArchiveError::InvalidArchive`
  | readerErr                    -- `ArchiveError::ReaderError`
  | panic (site : String)
  | abort (site : String)        -- allocation failure
  deriving Repr

/-- `archive::ChunkDescriptor` (absolute offset). -/
structure Descr where
  checksum : Bytes
  archiveSize : Nat
  archiveOffset : Nat
  sourceSize : Nat
  deriving Repr, DecidableEq

/-- `Compression` as recorded (algorithm code, level); `none` = uncompressed archive. -/
abbrev Compr := Option (Nat × Nat)

/-- `Archive<R>` without the reader. -/
structure Archive where
  chunks : List Descr
  sourceOrder : List Nat
  headerSize : Nat
  headerChecksum : Bytes
  compression : Compr
  version : Bytes
  chunkDataOffset : Nat
  sourceTotalSize : Nat
  sourceChecksum : Bytes
  config : Config
  hashLength : Nat
  metadata : List (Bytes × Bytes)
  deriving Repr

def usizeMax : Nat := 2 ^ 64 - 1

/-- Chunker parameters an archive may declare (checked at open since the F8 repair). -/
def configAccepted : Config → Bool
  | .buzhash f => decide (1 ≤ f.window ∧ f.window ≤ f.maxSize ∧ f.minSize ≤ f.maxSize ∧ 1 ≤ f.bits ∧ f.bits ≤ 30)
  | .rollsum f => decide (1 ≤ f.window ∧ 1 ≤ f.maxSize ∧ f.minSize ≤ f.maxSize ∧ 1 ≤ f.bits ∧ f.bits ≤ 30)
  | .fixed n => decide (1 ≤ n)

/-- `chunker_config_from_params`. -/
def configFromParams (p : ChunkerParameters) : Outcome Config :=
  let f : FilterConfig := ⟨p.chunkFilterBits, p.minChunkSize, p.maxChunkSize, p.rollingHashWindowSize⟩
  let c : Option Config :=
    if p.chunkingAlgorithm = Gen.enum_ChunkingAlgorithm_BUZHASH then some (.buzhash f)
    else if p.chunkingAlgorithm = Gen.enum_ChunkingAlgorithm_ROLLSUM then some (.rollsum f)
    else if p.chunkingAlgorithm = Gen.enum_ChunkingAlgorithm_FIXED_SIZE then some (.fixed p.maxChunkSize)
    else none
  match c with
  | none => .invalid "unknown chunking algorithm"
  | some c => if configAccepted c then .ok c else .invalid "invalid chunker parameters"

/-- `compression_from_dictionary` for a build with only brotli enabled (the default features);
`features` lists the enabled optional algorithm codes. -/
def compressionFromDict (features : List Nat) (c : ChunkCompression) : Outcome Compr :=
  if c.compression = Gen.enum_CompressionType_NONE then .ok none
  else if c.compression = Gen.enum_CompressionType_BROTLI then .ok (some (c.compression, c.compressionLevel))
  else if c.compression = Gen.enum_CompressionType_LZMA ∨ c.compression = Gen.enum_CompressionType_ZSTD then
    if features.contains c.compression then .ok (some (c.compression, c.compressionLevel))
    else .invalid "compression not enabled"
  else .invalid "unknown compression"

/-- `Archive::try_init(reader)`.  `read off size` is `reader.read_at`: exactly `size` bytes or an
error. -/
def tryInit (H : Bytes → Bytes) (features : List Nat)
    (read : Nat → Nat → Option Bytes) : Outcome Archive :=
  match read 0 Gen.preHeaderSize with
  | none => .readerErr
  | some pre =>
    if pre.length < magicBytes.length then .invalid "not an archive" else
    if pre.take magicBytes.length ≠ magicBytes ∧ pre.take magicBytes.length ≠ legacyMagicBytes then
      .invalid "not an archive" else
    if pre.length < Gen.preHeaderSize then .panic "pre-header slice" else
    let dictSize := fromLe ((pre.drop magicBytes.length).take 8)
    -- `dictionary_size.checked_add(8 + 64)`
    -- ... and (F14 repair, `Gen.headerEndChecked`) the header must END within 64 bits as well
    if dictSize + 72 > usizeMax ∨
        (Gen.headerEndChecked = true ∧ Gen.preHeaderSize + dictSize + 72 > usizeMax) then
      .invalid "invalid dictionary size" else
    let restSize := dictSize + 72
    -- (since the F8.k12 repair the local reader no longer allocates `restSize` up front: a size
    --  the file cannot satisfy ends in a reader error)
    match read Gen.preHeaderSize restSize with
    | none => .readerErr
    | some rest =>
      let header := pre ++ rest
      let offs := Gen.preHeaderSize + dictSize + 8
      if header.length < offs + 64 then .panic "header slice" else
      let checksum := (header.drop offs).take 64
      if checksum ≠ H (header.take offs) then .invalid "invalid header checksum" else
      match decodeDictionary ((header.drop Gen.preHeaderSize).take dictSize) with
      | none => .invalid "protobuf decode"
      | some dict =>
        let cdo := fromLe ((header.drop (Gen.preHeaderSize + dictSize)).take 8)
        -- `chunk_data_offset.checked_add(archive_offset)` and (F12 repair, read from the source:
        -- `Gen.chunkEndOffsetChecked`) the end of the chunk must fit 64 bits too; stored size >= 1
        if dict.chunkDescriptors.any (fun d =>
            cdo + d.archiveOffset + (if Gen.chunkEndOffsetChecked then d.archiveSize else 0) > usizeMax) then
          .invalid "invalid chunk offset" else
        if dict.chunkDescriptors.any (fun d => d.archiveSize = 0) then
          .invalid "invalid chunk size" else
        let chunks := dict.chunkDescriptors.map fun d =>
          (⟨hashTruncate d.checksum Gen.hashMaxLen, d.archiveSize, cdo + d.archiveOffset, d.sourceSize⟩ : Descr)
        match dict.chunkerParams with
        | none => .invalid "invalid chunker parameters"
        | some params =>
          -- hash length 1..=64 (F20 repair, `Gen.hashLengthChecked`)
          if Gen.hashLengthChecked = true ∧
              (params.chunkHashLength = 0 ∨ params.chunkHashLength > Gen.hashMaxLen) then
            .invalid "invalid chunk hash length" else
          if dict.rebuildOrder.any (fun i => i ≥ chunks.length) then .invalid "invalid rebuild order" else
          -- the chunks in rebuild order add up to the declared source size (F18 repair,
          -- `Gen.sourceSizeSumChecked`; a sum beyond 64 bits differs from any declared total)
          if Gen.sourceSizeSumChecked = true ∧
              (dict.rebuildOrder.map fun i => ((chunks[i]?).map (·.sourceSize)).getD 0).sum ≠ dict.sourceTotalSize then
            .invalid "invalid source size" else
          match dict.chunkCompression with
          | none => .invalid "invalid compression"
          | some cc =>
            match compressionFromDict features cc with
            | .ok compr =>
              match configFromParams params with
              | .ok cfg =>
                .ok { chunks := chunks, sourceOrder := dict.rebuildOrder, headerSize := header.length
                      headerChecksum := checksum, compression := compr, version := dict.applicationVersion
                      chunkDataOffset := cdo, sourceTotalSize := dict.sourceTotalSize
                      sourceChecksum := hashTruncate dict.sourceChecksum Gen.hashMaxLen
                      config := cfg, hashLength := params.chunkHashLength, metadata := dict.metadata }
              | .invalid w => .invalid w
              | .readerErr => .readerErr
              | .panic s => .panic s
              | .abort s => .abort s
            | .invalid w => .invalid w
            | .readerErr => .readerErr
            | .panic s => .panic s
            | .abort s => .abort s

namespace Archive

/-- `iter_source_chunks`: `(source offset, descriptor)` in source order; `none` where the Rust
would index out of bounds. -/
def sourceChunks (a : Archive) : Option (List (Nat × Descr)) :=
  (a.sourceOrder.foldlM (fun (acc : List (Nat × Descr) × Nat) i =>
    match a.chunks[i]? with
    | none => none
    | some cd => some (acc.1 ++ [(acc.2, cd)], acc.2 + cd.sourceSize)) ([], 0)).map
      (fun (r : List (Nat × Descr) × Nat) => r.1)

/-- `build_source_index` keyed by the checksum truncated to the archive's hash length. -/
def sourceIndex (a : Archive) : Option (Index Bytes) :=
  a.sourceChunks.map fun cs =>
    cs.foldl (fun ix e => ix.addChunk (hashTruncate e.2.checksum a.hashLength) e.2.sourceSize [e.1]) []

/-- `chunk_stream(chunks)`: the descriptors (in descriptor order) whose truncated checksum is
still in the clone index - this is the list handed to `read_chunks`. -/
def fetchList (a : Archive) (remaining : Index Bytes) : List Descr :=
  a.chunks.filter fun cd => remaining.contains (hashTruncate cd.checksum a.hashLength)

/-- `print_archive` (the banner of `info` and `clone`): the arithmetic that can panic.
Returns the values printed. -/
def banner (a : Archive) : Outcome (Nat × Nat × Nat) :=
  let avgAndMask : Outcome (Nat × Nat) :=
    match a.config with
    | .fixed _ => .ok (0, 0)
    | .buzhash f | .rollsum f =>
      -- `chunk_target_average`: `1 << (bits + 1)`; `mask`: `!0 >> (32 - bits)`
      if f.bits + 1 ≥ 32 then .panic "chunk_target_average shift"
      else if f.bits > 32 then .panic "mask subtraction"
      else if 32 - f.bits ≥ 32 then .panic "mask shift"
      else .ok (2 ^ (f.bits + 1), 2 ^ f.bits - 1)
  match avgAndMask with
  | .ok (avg, mask) =>
    -- average chunk size: guarded division (F1 repair)
    let total := (a.chunks.map (·.sourceSize)).sum
    .ok (avg, mask, if a.chunks.length = 0 then 0 else total / a.chunks.length)
  | .invalid w => .invalid w
  | .readerErr => .readerErr
  | .panic s => .panic s
  | .abort s => .abort s

end Archive

end Bita
