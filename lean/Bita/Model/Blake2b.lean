/-
  Blake2b-512 (RFC 7693), unkeyed.  Executable only: it instantiates the hash parameter `H` of
  the model in the driver so that headers and chunk hashes are byte-exact.  It never appears in
  a theorem (theorems quantify over `H`).
-/
namespace Bita.Blake2b

def iv : Array UInt64 := #[
  0x6a09e667f3bcc908, 0xbb67ae8584caa73b, 0x3c6ef372fe94f82b, 0xa54ff53a5f1d36f1,
  0x510e527fade682d1, 0x9b05688c2b3e6c1f, 0x1f83d9abfb41bd6b, 0x5be0cd19137e2179]

def sigma : Array (Array Nat) := #[
  #[0, 1, 2, 3, 4, 5, 6, 7, 8, 9, 10, 11, 12, 13, 14, 15],
  #[14, 10, 4, 8, 9, 15, 13, 6, 1, 12, 0, 2, 11, 7, 5, 3],
  #[11, 8, 12, 0, 5, 2, 15, 13, 10, 14, 3, 6, 7, 1, 9, 4],
  #[7, 9, 3, 1, 13, 12, 11, 14, 2, 6, 5, 10, 4, 0, 15, 8],
  #[9, 0, 5, 7, 2, 4, 10, 15, 14, 1, 11, 12, 6, 8, 3, 13],
  #[2, 12, 6, 10, 0, 11, 8, 3, 4, 13, 7, 5, 15, 14, 1, 9],
  #[12, 5, 1, 15, 14, 13, 4, 10, 0, 7, 6, 3, 9, 2, 8, 11],
  #[13, 11, 7, 14, 12, 1, 3, 9, 5, 0, 15, 4, 8, 6, 2, 10],
  #[6, 15, 14, 9, 11, 3, 0, 8, 12, 2, 13, 7, 1, 4, 10, 5],
  #[10, 2, 8, 4, 7, 6, 1, 5, 15, 11, 9, 14, 3, 12, 13, 0],
  #[0, 1, 2, 3, 4, 5, 6, 7, 8, 9, 10, 11, 12, 13, 14, 15],
  #[14, 10, 4, 8, 9, 15, 13, 6, 1, 12, 0, 2, 11, 7, 5, 3]]

@[inline] def rotr (x : UInt64) (n : UInt64) : UInt64 := (x >>> n) ||| (x <<< (64 - n))

@[inline] def g (v : Array UInt64) (a b c d : Nat) (x y : UInt64) : Array UInt64 :=
  let va := v[a]! + v[b]! + x
  let vd := rotr (v[d]! ^^^ va) 32
  let vc := v[c]! + vd
  let vb := rotr (v[b]! ^^^ vc) 24
  let va := va + vb + y
  let vd := rotr (vd ^^^ va) 16
  let vc := vc + vd
  let vb := rotr (vb ^^^ vc) 63
  (((v.set! a va).set! b vb).set! c vc).set! d vd

def compress (h : Array UInt64) (m : Array UInt64) (t : Nat) (last : Bool) : Array UInt64 := Id.run do
  let mut v : Array UInt64 := h ++ iv
  v := v.set! 12 (v[12]! ^^^ UInt64.ofNat (t % 2 ^ 64))
  v := v.set! 13 (v[13]! ^^^ UInt64.ofNat (t / 2 ^ 64))
  if last then v := v.set! 14 (v[14]! ^^^ 0xffffffffffffffff)
  for r in [0:12] do
    let s := sigma[r]!
    v := g v 0 4 8 12 m[s[0]!]! m[s[1]!]!
    v := g v 1 5 9 13 m[s[2]!]! m[s[3]!]!
    v := g v 2 6 10 14 m[s[4]!]! m[s[5]!]!
    v := g v 3 7 11 15 m[s[6]!]! m[s[7]!]!
    v := g v 0 5 10 15 m[s[8]!]! m[s[9]!]!
    v := g v 1 6 11 12 m[s[10]!]! m[s[11]!]!
    v := g v 2 7 8 13 m[s[12]!]! m[s[13]!]!
    v := g v 3 4 9 14 m[s[14]!]! m[s[15]!]!
  let mut out := h
  for i in [0:8] do
    out := out.set! i (h[i]! ^^^ v[i]! ^^^ v[i + 8]!)
  return out

def wordsOf (block : ByteArray) (off : Nat) : Array UInt64 := Id.run do
  let mut m : Array UInt64 := Array.replicate 16 0
  for i in [0:16] do
    let mut w : UInt64 := 0
    for j in [0:8] do
      let idx := off + i * 8 + j
      let b : UInt8 := if idx < block.size then block[idx]! else 0
      w := w ||| (b.toUInt64 <<< (UInt64.ofNat (8 * j)))
    m := m.set! i w
  return m

/-- Blake2b-512 of a byte array. -/
def hashBA (data : ByteArray) : ByteArray := Id.run do
  let mut h := iv.set! 0 (iv[0]! ^^^ 0x01010040)    -- digest length 64, no key, fanout 1, depth 1
  let n := data.size
  let nblocks := if n = 0 then 1 else (n + 127) / 128
  for i in [0:nblocks] do
    let last := i + 1 = nblocks
    let t := if last then n else (i + 1) * 128
    h := compress h (wordsOf data (i * 128)) t last
  let mut out := ByteArray.empty
  for i in [0:8] do
    let w := h[i]!
    for j in [0:8] do
      out := out.push ((w >>> (UInt64.ofNat (8 * j))).toUInt8)
  return out

/-- Blake2b-512 of a byte list. -/
def hash (data : List UInt8) : List UInt8 := (hashBA (ByteArray.mk data.toArray)).toList

end Bita.Blake2b
