/-
  The two archive readers as `Clone.run` / `tryInit` see them: `read_at` and `read_chunks` of
  `HttpReader` (archive_reader/http_reader.rs) and of `IoReader` (archive_reader/io_reader.rs),
  each with the transport behaviour it meets (failure script, fragmentation; short reads,
  `Pending`, errors), packaged as the reader functions of `Model/Clone.lean`.

  `clone_from_archive` consumes the `read_chunks` stream item by item and stops at the first
  error item; a stream never ends early without one (`StreamUntilFirstError`), which `padItems`
  expresses: one entry per requested range, `none` from the first error on.
-/
import Bita.Model.Clone
import Bita.Model.Readers

namespace Bita

def Item.toOpt : Item → Option Bytes
  | .chunk d => some d
  | _ => none

/-- One entry per requested range: the chunks delivered, then `none` (error; nothing after it). -/
def padItems (n : Nat) (items : List Item) : List (Option Bytes) :=
  ((items.map Item.toOpt) ++ List.replicate (n - items.length) none).take n

def toChunkOffsets (ranges : List (Nat × Nat)) : List ChunkOffset := ranges.map fun r => ⟨r.1, r.2⟩

/-- A remote archive: what the server answers to a range request, the retry budget
(`--http-retry-count`), and what the transport does during each call. -/
structure HttpEnv where
  serve : Nat → Nat → Bytes
  retry : Nat
  atScript : Nat → Nat → List Resp      -- during `read_at(off, size)`
  chunksScript : List Resp              -- during the `read_chunks` stream

def HttpEnv.readAt (e : HttpEnv) (off size : Nat) : Option Bytes :=
  (httpReadAt e.serve e.retry off size (e.atScript off size)).1.toOpt

def HttpEnv.readChunks (e : HttpEnv) (ranges : List (Nat × Nat)) : List (Option Bytes) :=
  padItems ranges.length (httpReadChunks e.serve e.retry e.chunksScript (toChunkOffsets ranges)).items

/-- What one call of the remote reader puts on the wire: the `(offset, size)` of every range
request sent while the call is served (retries included), in order. -/
def HttpEnv.wire (e : HttpEnv) : ArchReq → List (Nat × Nat)
  | .readAt off size => (httpReadAt e.serve e.retry off size (e.atScript off size)).2
  | .readChunks ranges => (httpReadChunks e.serve e.retry e.chunksScript (toChunkOffsets ranges)).reqs

/-- A server that answers a range request with the archive's bytes of that range (a range
reaching beyond the end gets what is there). -/
def honestServe (archive : Bytes) (off size : Nat) : Bytes := slice archive off size

/-- A local archive file and what the underlying reads do during each call. -/
structure IoEnv where
  file : Bytes
  atScript : Nat → Nat → List ReadEv
  chunksScript : List ReadEv

def IoEnv.readAt (e : IoEnv) (off size : Nat) : Option Bytes :=
  (ioReadAt e.file off size (e.atScript off size)).toOpt

def IoEnv.readChunks (e : IoEnv) (ranges : List (Nat × Nat)) : List (Option Bytes) :=
  padItems ranges.length (ioReadChunks e.file (toChunkOffsets ranges) [] e.chunksScript)

end Bita
