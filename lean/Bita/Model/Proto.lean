/-
  Model of the protobuf layer: prost's encoding and decoding (merge) of the four messages of
  bitar/proto/chunk_dictionary.proto as generated into bitar/src/chunk_dictionary.rs.
  Field numbers and enum values come from `Bita.Gen.Consts` (extracted from the source).

  Strings are byte strings with an explicit UTF-8 validity check (prost rejects invalid UTF-8).
-/
import Bita.Model.Basic
import Bita.Gen.Consts

namespace Bita.Proto
open Bita

/-! ## Varints -/

/-- `prost::encoding::encode_varint` (value < 2^64). -/
def encodeVarint (n : Nat) : Bytes :=
  if h : n < 128 then [UInt8.ofNat n]
  else UInt8.ofNat (n % 128 + 128) :: encodeVarint (n / 128)
termination_by n
decreasing_by omega

/-- `decode_varint`: at most 10 bytes, the 10th at most 1; `none` on exhaustion / overflow.
Returns the value and the rest. -/
def decodeVarintAux : Nat → Nat → Nat → Bytes → Option (Nat × Bytes)
  | 0, _, _, _ => none
  | _ + 1, _, _, [] => none
  | fuel + 1, shift, acc, b :: rest =>
    let v := b.toNat
    if 10 - (fuel + 1) = 9 ∧ v > 1 then none            -- 10th byte may only carry bit 63
    else if v < 128 then some (acc + v * 2 ^ shift, rest)
    else decodeVarintAux fuel (shift + 7) (acc + (v - 128) * 2 ^ shift) rest

def decodeVarint (b : Bytes) : Option (Nat × Bytes) := decodeVarintAux 10 0 0 b

/-! ## Wire format -/

inductive WireVal where
  | varint (n : Nat)
  | fixed64 (b : Bytes)
  | len (b : Bytes)
  | fixed32 (b : Bytes)
  deriving Repr, DecidableEq

/-- key = (tag << 3) | wire_type -/
def encodeKey (tag wt : Nat) : Bytes := encodeVarint (tag * 8 + wt)

/-- Skip the body of an unknown group (wire type 3) up to its matching end-group key:
prost's `skip_field` loop for `StartGroup`.  `depth` is what is left of prost's recursion limit
(`DecodeContext::recurse_count`) for the group itself; every inner field - of any wire type - is
skipped by a recursive `skip_field` call with `ctx.enter_recursion()`, which begins with
`ctx.limit_reached()?`: an inner field of a group whose count is 1 is refused, not only an inner
group.  Returns the rest after the end-group key. -/
def skipGroup : Nat → Nat → Nat → Bytes → Option Bytes
  | 0, _, _, _ => none
  | _, 0, _, _ => none
  | fuel + 1, depth + 1, gtag, b =>
    match decodeVarint b with
    | none => none
    | some (key, rest) =>
      if key ≥ 2 ^ 32 then none else
      let tag := key / 8
      let wt := key % 8
      if tag = 0 then none else
      match wt with
      | 0 => if depth = 0 then none else
        (decodeVarint rest).bind fun (_, r) => skipGroup fuel (depth + 1) gtag r
      | 1 => if depth = 0 then none else
        if rest.length < 8 then none else skipGroup fuel (depth + 1) gtag (rest.drop 8)
      | 2 => if depth = 0 then none else
        (decodeVarint rest).bind fun (n, r) =>
          if r.length < n then none else skipGroup fuel (depth + 1) gtag (r.drop n)
      | 3 => (skipGroup fuel depth tag rest).bind fun r => skipGroup fuel (depth + 1) gtag r
      | 4 => if tag = gtag then some rest else none
      | 5 => if depth = 0 then none else
        if rest.length < 4 then none else skipGroup fuel (depth + 1) gtag (rest.drop 4)
      | _ => none

/-- One field of a message: the key and its value; `none` on any malformation prost rejects
while reading keys / skipping values.  Unknown groups are skipped and reported as `none` value
(`.inr rest`) - they never carry a known field. -/
def parseField (forceLen : List Nat) (b : Bytes) : Option (Nat × Option WireVal × Bytes) :=
  match decodeVarint b with
  | none => none
  | some (key, rest) =>
    if key ≥ 2 ^ 32 then none else           -- "invalid key value"
    let tag := key / 8
    let wt := key % 8
    if tag = 0 then none else                -- "invalid tag value: 0"
    if wt > 5 then none else                 -- "invalid wire type value"
    -- prost's map merge never looks at the wire type: the field is read as length-delimited
    let wt := if forceLen.contains tag then 2 else wt
    match wt with
    | 0 => (decodeVarint rest).map fun (n, r) => (tag, some (.varint n), r)
    | 1 => if rest.length < 8 then none else some (tag, some (.fixed64 (rest.take 8)), rest.drop 8)
    | 2 =>
      (decodeVarint rest).bind fun (n, r) =>
        if r.length < n then none else some (tag, some (.len (r.take n)), r.drop n)
    | 3 => (skipGroup (rest.length + 1) 100 tag rest).map fun r => (tag, none, r)
    | 5 => if rest.length < 4 then none else some (tag, some (.fixed32 (rest.take 4)), rest.drop 4)
    | _ => none                              -- end group without start, wire types 6, 7

/-- All fields of a message, in order. -/
def parseMessage (forceLen : List Nat) : Nat → Bytes → Option (List (Nat × Option WireVal))
  | 0, _ => none
  | _, [] => some []
  | fuel + 1, b =>
    match parseField forceLen b with
    | none => none
    | some (tag, v, rest) => (parseMessage forceLen fuel rest).map fun fs => (tag, v) :: fs

/-- Fields of a message none of whose fields is a map. -/
def parse (b : Bytes) : Option (List (Nat × Option WireVal)) := parseMessage [] (b.length + 1) b

/-! ## UTF-8 -/

/-- `core::str::from_utf8(..).is_ok()` -/
def utf8Valid : Bytes → Bool
  | [] => true
  | b0 :: rest =>
    let c := b0.toNat
    let cont (x : UInt8) : Bool := 128 ≤ x.toNat && x.toNat < 192
    if c < 128 then utf8Valid rest
    else if 194 ≤ c && c < 224 then
      match rest with
      | b1 :: r => cont b1 && utf8Valid r
      | _ => false
    else if 224 ≤ c && c < 240 then
      match rest with
      | b1 :: b2 :: r =>
        let lo := if c = 224 then 160 else 128
        let hi := if c = 237 then 160 else 192
        (lo ≤ b1.toNat && b1.toNat < hi) && cont b2 && utf8Valid r
      | _ => false
    else if 240 ≤ c && c < 245 then
      match rest with
      | b1 :: b2 :: b3 :: r =>
        let lo := if c = 240 then 144 else 128
        let hi := if c = 244 then 144 else 192
        (lo ≤ b1.toNat && b1.toNat < hi) && cont b2 && cont b3 && utf8Valid r
      | _ => false
    else false

/-! ## The messages -/

structure ChunkDescriptor where
  checksum : Bytes := []
  archiveSize : Nat := 0        -- u32
  archiveOffset : Nat := 0      -- u64
  sourceSize : Nat := 0         -- u32
  deriving Repr, DecidableEq

structure ChunkerParameters where
  chunkFilterBits : Nat := 0
  minChunkSize : Nat := 0
  maxChunkSize : Nat := 0
  rollingHashWindowSize : Nat := 0
  chunkHashLength : Nat := 0
  chunkingAlgorithm : Nat := 0   -- i32 as its 32-bit pattern
  deriving Repr, DecidableEq

structure ChunkCompression where
  compression : Nat := 0         -- i32 as its 32-bit pattern
  compressionLevel : Nat := 0
  deriving Repr, DecidableEq

structure ChunkDictionary where
  applicationVersion : Bytes := []
  sourceChecksum : Bytes := []
  sourceTotalSize : Nat := 0
  chunkerParams : Option ChunkerParameters := none
  chunkCompression : Option ChunkCompression := none
  rebuildOrder : List Nat := []
  chunkDescriptors : List ChunkDescriptor := []
  metadata : List (Bytes × Bytes) := []     -- BTreeMap: ascending by key, keys unique
  deriving Repr, DecidableEq

/-! ### Encoding (prost `Message::encode`: fields in tag order, defaults omitted) -/

def encUint (tag v : Nat) : Bytes := if v = 0 then [] else encodeKey tag 0 ++ encodeVarint v

/-- int32 / enum: sign-extended to 64 bits -/
def encInt32 (tag v : Nat) : Bytes :=
  if v = 0 then [] else encodeKey tag 0 ++ encodeVarint (if v < 2 ^ 31 then v else v + (2 ^ 64 - 2 ^ 32))

def encBytes (tag : Nat) (b : Bytes) : Bytes :=
  if b.isEmpty then [] else encodeKey tag 2 ++ encodeVarint b.length ++ b

def encMsg (tag : Nat) (body : Bytes) : Bytes := encodeKey tag 2 ++ encodeVarint body.length ++ body

def encodeDescriptor (d : ChunkDescriptor) : Bytes :=
  encBytes Gen.tag_ChunkDescriptor_checksum d.checksum ++
  encUint Gen.tag_ChunkDescriptor_archive_size d.archiveSize ++
  encUint Gen.tag_ChunkDescriptor_archive_offset d.archiveOffset ++
  encUint Gen.tag_ChunkDescriptor_source_size d.sourceSize

def encodeParams (p : ChunkerParameters) : Bytes :=
  encUint Gen.tag_ChunkerParameters_chunk_filter_bits p.chunkFilterBits ++
  encUint Gen.tag_ChunkerParameters_min_chunk_size p.minChunkSize ++
  encUint Gen.tag_ChunkerParameters_max_chunk_size p.maxChunkSize ++
  encUint Gen.tag_ChunkerParameters_rolling_hash_window_size p.rollingHashWindowSize ++
  encUint Gen.tag_ChunkerParameters_chunk_hash_length p.chunkHashLength ++
  encInt32 Gen.tag_ChunkerParameters_chunking_algorithm p.chunkingAlgorithm

def encodeCompression (c : ChunkCompression) : Bytes :=
  encInt32 Gen.tag_ChunkCompression_compression c.compression ++
  encUint Gen.tag_ChunkCompression_compression_level c.compressionLevel

def encodeMapEntry (k v : Bytes) : Bytes := encBytes 1 k ++ encBytes 2 v

def encodeDictionary (d : ChunkDictionary) : Bytes :=
  encBytes Gen.tag_ChunkDictionary_application_version d.applicationVersion ++
  encBytes Gen.tag_ChunkDictionary_source_checksum d.sourceChecksum ++
  encUint Gen.tag_ChunkDictionary_source_total_size d.sourceTotalSize ++
  (match d.chunkerParams with
   | some p => encMsg Gen.tag_ChunkDictionary_chunker_params (encodeParams p)
   | none => []) ++
  (match d.chunkCompression with
   | some c => encMsg Gen.tag_ChunkDictionary_chunk_compression (encodeCompression c)
   | none => []) ++
  (if d.rebuildOrder.isEmpty then []
   else
     let body := (d.rebuildOrder.map encodeVarint).flatten
     encodeKey Gen.tag_ChunkDictionary_rebuild_order 2 ++ encodeVarint body.length ++ body) ++
  (d.chunkDescriptors.map fun c => encMsg Gen.tag_ChunkDictionary_chunk_descriptors (encodeDescriptor c)).flatten ++
  (d.metadata.map fun e => encMsg Gen.tag_ChunkDictionary_metadata (encodeMapEntry e.1 e.2)).flatten

/-! ### Decoding (prost `Message::decode` = `merge` into the default value) -/

def u32 (n : Nat) : Nat := n % 2 ^ 32

/-- merge of a `uint32` field: wire type must be varint; value truncated (`as u32`) -/
def asU32 : Option WireVal → Option Nat
  | some (.varint n) => some (u32 n)
  | _ => none

def asU64 : Option WireVal → Option Nat
  | some (.varint n) => some n
  | _ => none

def asBytes : Option WireVal → Option Bytes
  | some (.len b) => some b
  | _ => none

def asString : Option WireVal → Option Bytes
  | some (.len b) => if utf8Valid b then some b else none
  | _ => none

def mergeDescriptor (fs : List (Nat × Option WireVal)) (d : ChunkDescriptor) : Option ChunkDescriptor :=
  fs.foldlM (fun d (f : Nat × Option WireVal) =>
    if f.1 = Gen.tag_ChunkDescriptor_checksum then (asBytes f.2).map fun v => { d with checksum := v }
    else if f.1 = Gen.tag_ChunkDescriptor_archive_size then (asU32 f.2).map fun v => { d with archiveSize := v }
    else if f.1 = Gen.tag_ChunkDescriptor_archive_offset then (asU64 f.2).map fun v => { d with archiveOffset := v }
    else if f.1 = Gen.tag_ChunkDescriptor_source_size then (asU32 f.2).map fun v => { d with sourceSize := v }
    else some d) d

def mergeParams (fs : List (Nat × Option WireVal)) (p : ChunkerParameters) : Option ChunkerParameters :=
  fs.foldlM (fun p (f : Nat × Option WireVal) =>
    if f.1 = Gen.tag_ChunkerParameters_chunk_filter_bits then (asU32 f.2).map fun v => { p with chunkFilterBits := v }
    else if f.1 = Gen.tag_ChunkerParameters_min_chunk_size then (asU32 f.2).map fun v => { p with minChunkSize := v }
    else if f.1 = Gen.tag_ChunkerParameters_max_chunk_size then (asU32 f.2).map fun v => { p with maxChunkSize := v }
    else if f.1 = Gen.tag_ChunkerParameters_rolling_hash_window_size then (asU32 f.2).map fun v => { p with rollingHashWindowSize := v }
    else if f.1 = Gen.tag_ChunkerParameters_chunk_hash_length then (asU32 f.2).map fun v => { p with chunkHashLength := v }
    else if f.1 = Gen.tag_ChunkerParameters_chunking_algorithm then (asU32 f.2).map fun v => { p with chunkingAlgorithm := v }
    else some p) p

def mergeCompression (fs : List (Nat × Option WireVal)) (c : ChunkCompression) : Option ChunkCompression :=
  fs.foldlM (fun c (f : Nat × Option WireVal) =>
    if f.1 = Gen.tag_ChunkCompression_compression then (asU32 f.2).map fun v => { c with compression := v }
    else if f.1 = Gen.tag_ChunkCompression_compression_level then (asU32 f.2).map fun v => { c with compressionLevel := v }
    else some c) c

/-- packed varints of a `repeated uint32` -/
def decodePacked : Nat → Bytes → Option (List Nat)
  | 0, _ => none
  | _, [] => some []
  | fuel + 1, b =>
    match decodeVarint b with
    | none => none
    | some (n, rest) => (decodePacked fuel rest).map fun ns => u32 n :: ns

/-- `BTreeMap::insert` -/
def mapInsert (k v : Bytes) : List (Bytes × Bytes) → List (Bytes × Bytes)
  | [] => [(k, v)]
  | (k', v') :: rest =>
    if k = k' then (k, v) :: rest
    else if compareOfLessAndEq (α := List Nat) (k.map (·.toNat)) (k'.map (·.toNat)) = .lt then (k, v) :: (k', v') :: rest
    else (k', v') :: mapInsert k v rest

def mergeMapEntry (fs : List (Nat × Option WireVal)) : Option (Bytes × Bytes) :=
  fs.foldlM (fun (e : Bytes × Bytes) (f : Nat × Option WireVal) =>
    if f.1 = 1 then (asString f.2).map fun v => (v, e.2)
    else if f.1 = 2 then (asBytes f.2).map fun v => (e.1, v)
    else some e) ([], [])

def mergeDictionary (fs : List (Nat × Option WireVal)) (d : ChunkDictionary) : Option ChunkDictionary :=
  fs.foldlM (fun d (f : Nat × Option WireVal) =>
    if f.1 = Gen.tag_ChunkDictionary_application_version then (asString f.2).map fun v => { d with applicationVersion := v }
    else if f.1 = Gen.tag_ChunkDictionary_source_checksum then (asBytes f.2).map fun v => { d with sourceChecksum := v }
    else if f.1 = Gen.tag_ChunkDictionary_source_total_size then (asU64 f.2).map fun v => { d with sourceTotalSize := v }
    else if f.1 = Gen.tag_ChunkDictionary_chunker_params then
      (asBytes f.2).bind fun b => (parse b).bind fun sub =>
        (mergeParams sub (d.chunkerParams.getD {})).map fun p => { d with chunkerParams := some p }
    else if f.1 = Gen.tag_ChunkDictionary_chunk_compression then
      (asBytes f.2).bind fun b => (parse b).bind fun sub =>
        (mergeCompression sub (d.chunkCompression.getD {})).map fun c => { d with chunkCompression := some c }
    else if f.1 = Gen.tag_ChunkDictionary_rebuild_order then
      match f.2 with
      | some (.varint n) => some { d with rebuildOrder := d.rebuildOrder ++ [u32 n] }     -- unpacked
      | some (.len b) => (decodePacked (b.length + 1) b).map fun ns => { d with rebuildOrder := d.rebuildOrder ++ ns }
      | _ => none
    else if f.1 = Gen.tag_ChunkDictionary_chunk_descriptors then
      (asBytes f.2).bind fun b => (parse b).bind fun sub =>
        (mergeDescriptor sub {}).map fun c => { d with chunkDescriptors := d.chunkDescriptors ++ [c] }
    else if f.1 = Gen.tag_ChunkDictionary_metadata then
      (asBytes f.2).bind fun b => (parse b).bind fun sub =>
        (mergeMapEntry sub).map fun e => { d with metadata := mapInsert e.1 e.2 d.metadata }
    else some d) d

/-- `prost::Message::decode::<ChunkDictionary>(bytes)` -/
def decodeDictionary (b : Bytes) : Option ChunkDictionary :=
  (parseMessage [Gen.tag_ChunkDictionary_metadata] (b.length + 1) b).bind fun fs => mergeDictionary fs {}

end Bita.Proto
