/-
  Model of bitar/src/{hashsum.rs, chunk_index.rs (index part), chunk_location_map.rs}.

  A `ChunkIndex` is a `HashMap<HashSum, ChunkLocation>` whose keys are hashes truncated to
  `hash_length`.  The model is an association list with unique keys over an abstract key type
  `κ` ("what the truncated hash identifies"); the correspondence runs instantiate `κ` with
  byte strings and drive the real `HashSum`/`Borrow<dyn HashSumKey>` machinery.
  Iteration order of the Rust `HashMap` is unspecified; every use that the model makes of
  the order of an `Index` is one where the Rust code sorts first or where order is irrelevant.
-/
import Bita.Model.Basic

namespace Bita

/-! ## HashSum -/

/-- `HashSum: PartialEq` — equality on the common prefix of the shorter length. -/
def hashEq (a b : Bytes) : Bool :=
  a.take (min a.length b.length) == b.take (min a.length b.length)

/-- `HashSum::truncate`. -/
def hashTruncate (h : Bytes) (n : Nat) : Bytes := if n < h.length then h.take n else h

/-! ## ChunkLocation / ChunkIndex -/

/-- `ChunkLocation { size, offsets }` (offsets ascending, no duplicates). -/
structure Loc where
  size : Nat
  offsets : List Nat
  deriving Repr, DecidableEq, Inhabited

/-- `add_offset_sorted`: binary search + insert, no duplicates. -/
def insertSorted (o : Nat) : List Nat → List Nat
  | [] => [o]
  | x :: xs => if o < x then o :: x :: xs else if o = x then x :: xs else x :: insertSorted o xs

abbrev Index (κ : Type) := List (κ × Loc)

namespace Index
variable {κ : Type} [DecidableEq κ]

def get (ix : Index κ) (k : κ) : Option Loc := (ix.find? (fun e => e.1 = k)).map (·.2)

def contains (ix : Index κ) (k : κ) : Bool := (ix.get k).isSome

def remove (ix : Index κ) (k : κ) : Index κ := ix.filter (fun e => e.1 ≠ k)

/-- `get_first_offset(...).unwrap()`-style access: `offsets[0]`. -/
def firstOffset (ix : Index κ) (k : κ) : Option Nat := (ix.get k).bind (·.offsets.head?)

/-- `add_chunk`: `entry(hash).or_insert(size, [])`, then every offset inserted sorted. -/
def addChunk (ix : Index κ) (k : κ) (size : Nat) (offs : List Nat) : Index κ :=
  match ix.get k with
  | some _ => ix.map (fun e => if e.1 = k then (e.1, { e.2 with offsets := offs.foldl (fun acc o => insertSorted o acc) e.2.offsets }) else e)
  | none => ix ++ [(k, { size := size, offsets := offs.foldl (fun acc o => insertSorted o acc) [] })]

def keys (ix : Index κ) : List κ := ix.map (·.1)

/-- `strip_chunks_already_in_place`: for every chunk of `target` that `self` also holds, drop
the offsets present in both; drop the chunk when none is left.  Returns the new target, the
number of offsets removed and their total size (after the F2 repair the count is the number
of offsets actually removed). -/
def strip (self target : Index κ) : Index κ × Nat × Nat :=
  target.foldl (fun (acc : Index κ × Nat × Nat) e =>
    let (out, cnt, tot) := acc
    match self.get e.1 with
    | some l =>
      let kept := e.2.offsets.filter (fun o => !l.offsets.contains o)
      let removed := e.2.offsets.length - kept.length
      let out' := if kept.isEmpty then out else out ++ [(e.1, { e.2 with offsets := kept })]
      (out', cnt + removed, tot + l.size * removed)
    | none => (out ++ [e], cnt, tot)) ([], 0, 0)

end Index

/-! ## ChunkLocationMap -/

/-- `BTreeMap<ChunkOffset, V>` as a list sorted by `(offset, size)`. -/
abbrev Layout (κ : Type) := List (ChunkOffset × κ)

namespace Layout
variable {κ : Type}

def keyLt (a b : ChunkOffset) : Bool := a.offset < b.offset || (a.offset = b.offset && a.size < b.size)

def insert (lay : Layout κ) (loc : ChunkOffset) (v : κ) : Layout κ :=
  match lay with
  | [] => [(loc, v)]
  | (l, w) :: rest =>
    if keyLt loc l then (loc, v) :: (l, w) :: rest
    else if loc = l then (loc, v) :: rest
    else (l, w) :: insert rest loc v

def remove (lay : Layout κ) (loc : ChunkOffset) : Layout κ := lay.filter (fun e => e.1 ≠ loc)

/-- `iter_overlapping`: `range(..(location.end(), 0)).rev().take_while(|l| location.offset < l.end())`
- literally a reverse scan that stops at the first entry ending at or before the start. -/
def overlapping (lay : Layout κ) (loc : ChunkOffset) : List (ChunkOffset × κ) :=
  ((lay.filter (fun e => keyLt e.1 ⟨loc.stop, 0⟩)).reverse).takeWhile (fun e => loc.offset < e.1.stop)

end Layout

end Bita
