/-
  Run-level specification of what an HTTP chunk fetch must do under transfer failures
  (property C08): "each retry resumes at the first byte not yet received, up to the configured
  retry count; if retries are exhausted or a body ends early an error is returned - never a
  short, shifted or duplicated chunk".  Written from that sentence; it knows nothing of the
  reader's buffer, adjacency counter or fragments.
-/
import Bita.Model.Readers
import Bita.Spec.Runs

namespace Bita.Spec
open Bita

/-- How the fetch of one run ended. -/
inductive RunEnd where
  | done
  | fail (it : Item)
  deriving Repr, DecidableEq

/-- Fetch `[pos, stop)` with `budget` retries left: returns the position reached (first byte
not received), the requests issued, how it ended and the unused script. -/
def fetchRun (stop : Nat) : Nat → Nat → List Resp → Nat × List (Nat × Nat) × RunEnd × List Resp
  | pos, _, [] => (pos, [(pos, stop - pos)], .fail Item.stall, [])
  | pos, budget, r :: s =>
    let req := (pos, stop - pos)
    match r with
    | .full _ => (stop, [req], .done, s)
    | .refuse =>
      if budget = 0 then (pos, [req], .fail Item.errHttp, s)
      else
        let (p, rq, e, rest) := fetchRun stop pos (budget - 1) s
        (p, req :: rq, e, rest)
    | .part n _ cut =>
      let pos' := min stop (pos + n)
      if pos' = stop then (stop, [req], .done, s)
      else if cut then
        if budget = 0 then (pos', [req], .fail Item.errHttp, s)
        else
          let (p, rq, e, rest) := fetchRun stop pos' (budget - 1) s   -- resume at first missing byte
          (p, req :: rq, e, rest)
      else (pos', [req], .fail Item.errEnd, s)

/-- The exact item for a requested range. -/
def exactItem (data : Bytes) (c : ChunkOffset) : Item := Item.chunk (slice data c.offset c.size)

/-- Fetch run after run; every run gets a fresh retry budget.  On failure the chunks of the run
that were completely received are still delivered, then the error, then nothing. -/
def fetchAll (data : Bytes) (retry : Nat) : List (List ChunkOffset) → List Resp → Out
  | [], _ => ⟨[], []⟩
  | run :: runs, script =>
    let (start, len) := runRequest run
    let (pos, reqs, e, rest) := fetchRun (start + len) start retry script
    match e with
    | .done =>
      let o := fetchAll data retry runs rest
      ⟨run.map (exactItem data) ++ o.items, reqs ++ o.reqs⟩
    | .fail it => ⟨(run.filter (fun c => c.stop ≤ pos)).map (exactItem data) ++ [it], reqs⟩

end Bita.Spec
