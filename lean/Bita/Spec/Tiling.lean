/-
  What "the chunks tile the stream" and "a position is a chunk end" mean (C09, C10).
-/
import Bita.Model.Chunker

namespace Bita.Spec
open Bita

/-- `cs` are contiguous chunks `(offset, length)` covering exactly `[s, e)`, none empty. -/
def Tiles : List (Nat × Nat) → Nat → Nat → Prop
  | [], s, e => s = e
  | (o, l) :: cs, s, e => o = s ∧ 1 ≤ l ∧ Tiles cs (s + l) e

/-- `e` is the end of some chunk. -/
def IsEnd (cs : List (Nat × Nat)) (e : Nat) : Prop := ∃ c ∈ cs, c.1 + c.2 = e

instance (cs : List (Nat × Nat)) (e : Nat) : Decidable (IsEnd cs e) :=
  inferInstanceAs (Decidable (∃ c ∈ cs, c.1 + c.2 = e))

/-- The hash window of a configuration (0 for fixed-size chunking). -/
def windowOf : Config → Nat
  | .rollsum f => f.window
  | .buzhash f => f.window
  | .fixed _ => 0

/-- The chunks that start at or after `pos`, with offsets relative to `base`. -/
def chunksFrom (cs : List (Nat × Nat)) (pos base : Nat) : List (Nat × Nat) :=
  (cs.filter (fun c => pos ≤ c.1)).map (fun c => (c.1 - base, c.2))

/-- A read script delivers all `n` bytes and then observes the end of the source. -/
def Complete : List Rd → Nat → Bool
  | [], _ => false
  | .pending :: s, r => Complete s r
  | .bytes n :: s, r => if r = 0 then true else Complete s (r - min (max n 1) r)

/-- All chunks but the last. -/
def allButLast (cs : List (Nat × Nat)) : List (Nat × Nat) := cs.dropLast

end Bita.Spec
