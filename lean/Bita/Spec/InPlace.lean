/-
  What an in-place update must achieve (C03, C13), stated over *tilings*: a file is a sequence
  of chunks, each identified by a key `κ` (what the truncated hash identifies) with content
  `content k`.  Equal keys have equal content by construction - the theorems that use this
  specification say so as their collision-freeness hypothesis.
-/
import Bita.Model.Output

namespace Bita.Spec
open Bita

variable {κ : Type} [DecidableEq κ]

/-- `(key, offset)` of every chunk of a tiling that starts at `off`. -/
def placements (content : κ → Bytes) : List κ → Nat → List (κ × Nat)
  | [], _ => []
  | k :: ks, off => (k, off) :: placements content ks (off + (content k).length)

/-- The bytes of a tiling. -/
def fileOf (content : κ → Bytes) (ts : List κ) : Bytes := (ts.map content).flatten

/-- The `ChunkIndex` that scanning / the archive dictionary builds for a tiling
(`add_chunk(hash, size, &[offset])` for every chunk in order). -/
def indexOf (content : κ → Bytes) (ts : List κ) : Index κ :=
  (placements content ts 0).foldl (fun ix e => ix.addChunk e.1 (content e.1).length [e.2]) []

/-- First offset of `k` in a placement list (placements are in ascending offset order). -/
def firstOff (P : List (κ × Nat)) (k : κ) : Option Nat := (P.find? (fun e => e.1 = k)).map (·.2)

/-- Where `k` still has to be written: its target offsets that do not already hold it. -/
def dests (PO PN : List (κ × Nat)) (k : κ) : List Nat :=
  (PN.filter (fun e => e.1 = k && !PO.contains e)).map (·.2)

/-- `[a, a+la)` and `[b, b+lb)` intersect. -/
def overlap (a la b lb : Nat) : Bool := a < b + lb && b < a + la

def opKey : ROp κ → κ
  | .copy k _ _ _ => k
  | .store k _ _ => k

def isCopy : ROp κ → Bool
  | .copy .. => true
  | .store .. => false

/-- Ordering condition, scanned left to right with the keys already copied or buffered:
a copy may only overwrite the (first-offset) region of another movable chunk that has been
copied or buffered before. -/
def orderedFrom (content : κ → Bytes) (PO : List (κ × Nat)) (movable : List κ) :
    List κ → List (ROp κ) → Bool
  | _, [] => true
  | seen, op :: ops =>
    (match op with
     | .copy z _ _ dest =>
       dest.all fun d => movable.all fun y =>
         y = z || seen.contains y ||
           !(match firstOff PO y with
             | some fy => overlap fy (content y).length d (content z).length
             | none => false)
     | .store .. => true) &&
    orderedFrom content PO movable (opKey op :: seen) ops

/-- **Safe plan.**  `ops` moves every chunk of the prior tiling `O` that the target `N` still
needs elsewhere, exactly once, to exactly the target offsets that do not hold it yet, reading it
from its first location, and never overwrites a still-needed chunk that has not been copied or
buffered. -/
def safePlan (content : κ → Bytes) (O N : List κ) (ops : List (ROp κ)) : Bool :=
  let PO := placements content O 0
  let PN := placements content N 0
  let movable := O.eraseDups.filter (fun k => !(dests PO PN k).isEmpty)
  let copies := (ops.filter isCopy).map opKey
  ops.all (fun op => match op with
    | .copy k sz src d =>
      movable.contains k && sz = (content k).length && firstOff PO k = some src && d = dests PO PN k
    | .store k sz src =>
      movable.contains k && sz = (content k).length && firstOff PO k = some src) &&
  decide copies.Nodup && movable.all (fun k => copies.contains k) &&
  orderedFrom content PO movable [] ops

/-- Feed chunks to the output (what seeds and the archive deliver), in the order given. -/
def feedAll (content : κ → Bytes) (st : OutSt κ) (ks : List κ) : OutSt κ :=
  ks.foldl (fun st k => (st.feed k (content k)).1) st

/-- The writes recorded in an I/O log. -/
def writesOf : List IoOp → List (Nat × Bytes)
  | [] => []
  | .write o d :: r => (o, d) :: writesOf r
  | .read .. :: r => writesOf r

/-- `set_len(n)` of a regular file. -/
def resize (f : Bytes) (n : Nat) : Bytes := f.take n ++ List.replicate (n - f.length) 0

end Bita.Spec
