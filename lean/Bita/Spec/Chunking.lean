/-
  Independent statement of property C09's chunking rule: "a boundary is placed exactly at the
  first position at or beyond the minimum size where the rolling hash of the trailing window
  has all filter bits set, or else at the maximum size".  Pure functions of the byte string:
  no hasher state, no buffer, no scan offset.

  Interpretation I1 (DESIGN.md 3.3): positions are those at which a rolling hash exists and is
  consulted.  BuzHash consumes its first `window` stream bytes through `init` ("warm-up"),
  which yields no valid sum, so its first testable position is stream position `window + 1`.
  RollSum starts from a window of zeros, so every position is testable.
-/
import Bita.Model.Chunker

namespace Bita.Spec
open Bita

/-- The trailing window of `n` bytes ending at stream position `p` (zero padded before the
start of the stream). -/
def winAt (n : Nat) (data : Bytes) (p : Nat) : Bytes :=
  ((List.replicate n (0 : UInt8) ++ data).drop p).take n

def byteVal (b : UInt8) : U32 := BitVec.ofNat 32 b.toNat

/-- Σ wᵢ -/
def sumBytes : Bytes → U32
  | [] => 0
  | b :: bs => byteVal b + sumBytes bs

/-- Σ (n−i)·wᵢ for a list of length n (oldest byte has the largest weight). -/
def weightedSum : Bytes → U32
  | [] => 0
  | b :: bs => BitVec.ofNat 32 (bs.length + 1) * byteVal b + weightedSum bs

/-- bup/rsync rolling checksum of a window, in closed form:
`s1 = 31n + Σw`, `s2 = 31n(n−1) + Σ(n−i)wᵢ`, `sum = s1 << 16 | s2 & 0xffff`. -/
def rollsumOf (w : Bytes) : U32 :=
  let n : U32 := BitVec.ofNat 32 w.length
  let s1 := 31#32 * n + sumBytes w
  let s2 := 31#32 * n * BitVec.ofNat 32 (w.length - 1) + weightedSum w
  (s1 <<< 16) ||| (s2 &&& 0xffff#32)

/-- Cyclic polynomial (buzhash) of a window: `⨁ rotl(T[wᵢ], n−1−i)`. -/
def buzOf : Bytes → U32
  | [] => 0
  | b :: bs => rotl (buzTable b) bs.length ^^^ buzOf bs

inductive Algo where
  | roll
  | buz
  deriving Repr, DecidableEq

def windowHash : Algo → Bytes → U32
  | .roll, w => rollsumOf w
  | .buz, w => buzOf w

/-- "has all filter bits set" -/
def allBitsSet (mask h : U32) : Bool := h ||| mask = h

/-- Least `L` with `lo ≤ L < lo + count` such that the window ending at `s + L` is a boundary. -/
def firstBoundary (algo : Algo) (n : Nat) (mask : U32) (data : Bytes) (s : Nat) : Nat → Nat → Option Nat
  | _, 0 => none
  | lo, k + 1 =>
    if allBitsSet mask (windowHash algo (winAt n data (s + lo))) then some lo
    else firstBoundary algo n mask data s (lo + 1) k

/-- Length of the chunk that starts at stream position `s` (`none`: no cut - what is left is
the last chunk). -/
def specCut (algo : Algo) (f : FilterConfig) (data : Bytes) (s : Nat) : Option Nat :=
  let rem := data.length - s
  let warm := match algo with
    | .buz => f.window + 1 - s      -- first testable length (I1)
    | .roll => 0
  let lo := max (max f.minSize 1) warm
  let hi := min f.maxSize rem
  match firstBoundary algo f.window (filterMask f.bits) data s lo (hi + 1 - lo) with
  | some L => some L
  | none => if f.maxSize ≤ rem then some f.maxSize else none

/-- The chunks `(offset, length)` of `data` from position `s` on. -/
def specChunksFrom (algo : Algo) (f : FilterConfig) (data : Bytes) : Nat → Nat → List (Nat × Nat)
  | 0, _ => []
  | fuel + 1, s =>
    if data.length ≤ s then []
    else
      match specCut algo f data s with
      | some L => if L = 0 then [] else (s, L) :: specChunksFrom algo f data fuel (s + L)
      | none => [(s, data.length - s)]

/-- Fixed-size chunking: pieces of `n`, the remainder last. -/
def fixedChunksFrom (n : Nat) (len : Nat) : Nat → Nat → List (Nat × Nat)
  | 0, _ => []
  | fuel + 1, s =>
    if len ≤ s then []
    else if s + n ≤ len then (if n = 0 then [] else (s, n) :: fixedChunksFrom n len fuel (s + n))
    else [(s, len - s)]

/-- **The rule.** -/
def specChunks (cfg : Config) (data : Bytes) : List (Nat × Nat) :=
  match cfg with
  | .rollsum f => specChunksFrom .roll f data (data.length + 1) 0
  | .buzhash f => specChunksFrom .buz f data (data.length + 1) 0
  | .fixed n => fixedChunksFrom n data.length (data.length + 1) 0

end Bita.Spec
