/-
  What it means for an opened archive to *describe* a source, for archive bytes to *store* the
  chunks, for a byte string to be a *conforming archive* of a source (C17), and what a hash
  collision is (the escape clause of C02 / C03 / C04).
-/
import Bita.Model.Clone

namespace Bita.Spec
open Bita Proto

/-- Two different byte strings with the same strong hash truncated to `n` bytes, one of them a
genuine chunk of the source. -/
def Collision (H : Bytes → Bytes) (n : Nat) (cks : List Bytes) : Prop :=
  ∃ x y, y ∈ cks ∧ x ≠ y ∧ hashTruncate (H x) n = hashTruncate (H y) n

/-- Two different chunks of one byte string (as the archive's chunker cuts it) with the same
truncated strong hash. -/
def SelfCollision (H : Bytes → Bytes) (n : Nat) (cfg : Config) (data : Bytes) : Prop :=
  ∃ c1 ∈ chunkAll cfg data, ∃ c2 ∈ chunkAll cfg data,
    slice data c1.1 c1.2 ≠ slice data c2.1 c2.2 ∧
    hashTruncate (H (slice data c1.1 c1.2)) n = hashTruncate (H (slice data c2.1 c2.2)) n

/-- The opened archive `a` describes the source `src` cut into the chunks `cks`: the rebuild
order names, for every chunk in turn, a descriptor with that chunk's size and truncated hash. -/
structure Describes (H : Bytes → Bytes) (a : Archive) (src : Bytes) (cks : List Bytes) : Prop where
  tiles : src = cks.flatten
  nonempty : ∀ c ∈ cks, c ≠ []
  order_len : a.sourceOrder.length = cks.length
  descr : ∀ i (hi : i < cks.length), ∃ j d, a.sourceOrder[i]? = some j ∧ a.chunks[j]? = some d ∧
    d.sourceSize = cks[i].length ∧ d.checksum = hashTruncate (H cks[i]) a.hashLength
  total : a.sourceTotalSize = src.length
  hash_len : 1 ≤ a.hashLength ∧ a.hashLength ≤ 64
  used : ∀ d ∈ a.chunks, ∃ c ∈ cks, d.sourceSize = c.length ∧ d.checksum = hashTruncate (H c) a.hashLength
  checksum : a.sourceChecksum = H src
  valid : a.config.Valid

/-- The archive bytes hold, at every descriptor's absolute range, stored bytes that decode
(raw when stored size = source size, else through the codec) to a chunk with the descriptor's
hash and size. -/
def Stored (H : Bytes → Bytes) (decomp : Nat → Bytes → Nat → Option Bytes) (a : Archive)
    (archive : Bytes) : Prop :=
  ∀ d ∈ a.chunks, d.archiveOffset + d.archiveSize ≤ archive.length ∧
    ∃ chunk, decodeChunk H decomp a.compression d (slice archive d.archiveOffset d.archiveSize) = some chunk ∧
      chunk.length = d.sourceSize

/-- **Conforming archive** (C17): the bytes open (either magic, any decodable dictionary - unknown
fields, any field order -, chunk data anywhere the offsets say), and what was opened describes
`src` and is stored in the bytes.  Nothing here refers to how bita's writer lays an archive out. -/
def Conforms (H : Bytes → Bytes) (decomp : Nat → Bytes → Nat → Option Bytes) (features : List Nat)
    (archive src : Bytes) : Prop :=
  ∃ a cks, tryInit H features (honestReadAt archive) = .ok a ∧ Describes H a src cks ∧
    Stored H decomp a archive

/-- Where the source's chunks live in the source: `(offset, bytes)` of every chunk in order (C13:
the only writes a clone may issue). -/
def chunkPlacements : List Bytes → Nat → List (Nat × Bytes)
  | [], _ => []
  | c :: cs, off => (off, c) :: chunkPlacements cs (off + c.length)

/-- Keys (truncated strong hashes) of the chunks the archive's chunker finds in a byte string. -/
def chunkKeys (H : Bytes → Bytes) (cfg : Config) (n : Nat) (data : Bytes) : List Bytes :=
  (chunkAll cfg data).map fun c => hashTruncate (H (slice data c.1 c.2)) n

/-- Well-formed dictionary values: what the Rust types guarantee (u32/u64 ranges, UTF-8 strings,
a `BTreeMap`'s strictly ascending keys). -/
structure DictWF (d : ChunkDictionary) : Prop where
  version : utf8Valid d.applicationVersion = true
  total : d.sourceTotalSize < 2 ^ 64
  params : ∀ p, d.chunkerParams = some p → p.chunkFilterBits < 2 ^ 32 ∧ p.minChunkSize < 2 ^ 32 ∧
    p.maxChunkSize < 2 ^ 32 ∧ p.rollingHashWindowSize < 2 ^ 32 ∧ p.chunkHashLength < 2 ^ 32 ∧
    p.chunkingAlgorithm < 2 ^ 32
  compr : ∀ c, d.chunkCompression = some c → c.compression < 2 ^ 32 ∧ c.compressionLevel < 2 ^ 32
  order : ∀ i ∈ d.rebuildOrder, i < 2 ^ 32
  descr : ∀ c ∈ d.chunkDescriptors, c.archiveSize < 2 ^ 32 ∧ c.archiveOffset < 2 ^ 64 ∧ c.sourceSize < 2 ^ 32
  meta_utf8 : ∀ e ∈ d.metadata, utf8Valid e.1 = true
  meta_sorted : d.metadata.Pairwise (fun a b => (a.1.map (·.toNat)) < (b.1.map (·.toNat)))
  /-- the encoding fits a `Vec<u8>` (every length prefix is the length of a part of it) -/
  size : (encodeDictionary d).length < 2 ^ 64

end Bita.Spec
