/-
  Independent statement of "maximal runs of adjacent chunks" (property C07).
  Written from the property's sentence, not from `adjacent_reads`.
-/
import Bita.Model.Basic

namespace Bita.Spec

/-- Split a chunk list wherever the next chunk does not start where the previous one stops. -/
def maximalRuns : List ChunkOffset → List (List ChunkOffset)
  | [] => []
  | c :: cs =>
    match maximalRuns cs with
    | (d :: r) :: rs => if c.stop = d.offset then (c :: d :: r) :: rs else [c] :: (d :: r) :: rs
    | rs => [c] :: rs

/-- Consecutive members of a run are stored back-to-back. -/
def Contiguous : List ChunkOffset → Prop
  | a :: b :: rest => a.stop = b.offset ∧ Contiguous (b :: rest)
  | _ => True

/-- No two consecutive runs could have been merged. -/
def Separated : List (List ChunkOffset) → Prop
  | r1 :: r2 :: rest =>
    (∀ a ∈ r1.getLast?, ∀ b ∈ r2.head?, a.stop ≠ b.offset) ∧ Separated (r2 :: rest)
  | _ => True

/-- The one range request that covers a run: first byte of its first chunk, up to and including
the last byte of its last chunk. -/
def runRequest (run : List ChunkOffset) : Nat × Nat :=
  match run.head?, run.getLast? with
  | some a, some b => (a.offset, b.stop - a.offset)
  | _, _ => (0, 0)

end Bita.Spec
