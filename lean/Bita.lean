-- Root of the `Bita` library: model, specifications, proofs and property theorems.
import Bita.Model.Basic
import Bita.Model.Readers
