-- Root of the `Bita` library: model, specifications, proofs and property theorems.
import Bita.Props.C01
import Bita.Props.C02
import Bita.Props.C03
import Bita.Props.C04
import Bita.Props.C05
import Bita.Props.C06
import Bita.Props.C07
import Bita.Props.C08
import Bita.Props.C09
import Bita.Props.C10
import Bita.Props.C11
import Bita.Props.C12
import Bita.Props.C13
import Bita.Props.C14
import Bita.Props.C15
import Bita.Props.C16
import Bita.Props.C17
