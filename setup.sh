#!/bin/sh
# Build the framework from files on disk only (offline): Lean library + driver, Rust harness.
set -e
cd "$(dirname "$0")"
export CARGO_NET_OFFLINE=true
python3 - <<'PY'
import sys
sys.path.insert(0, '.')
from vlib import extract
try:
    extract.run('setup')
except Exception as e:
    print('extractor:', e)
PY
(cd lean && lake build Bita bitamodel)
[ -f harness/Cargo.lock ] || cp /repo/Cargo.lock harness/Cargo.lock
python3 -c "import sys; sys.path.insert(0, '.'); from vlib import core; core.write_cli_mods()"
(cd harness && CARGO_TARGET_DIR=/verif/.target RUSTFLAGS="--cfg oll3_bita_verif" cargo build --offline --bins)
mkdir -p .target && cc -shared -fPIC -O1 -o .target/iofault.so harness/shim/iofault.c -ldl -lpthread
(cd /repo && CARGO_TARGET_DIR=/verif/.target/repo RUSTFLAGS="--cfg oll3_bita_verif" cargo build --offline --bin bita)
echo setup done
