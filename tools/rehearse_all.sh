#!/bin/sh
# Regression rehearsal: every reverted repair and every seeded change against the checks recorded as
# catching it (quick tier), from the directory this script lives in (use a scratch copy of /verif so that
# /verif's evidence stays that of the unchanged tree).  /repo's working tree is restored after each.
here=$(cd "$(dirname "$0")/.." && pwd)
cd "$here"
filter='^== |CAUGHT|VIOLATION|patch does not'
rev() { echo "######## revert $1 ($2)"; c=$1; shift; shift; python3 tools/try_patch.py --reverse $c "$@" 2>&1 | grep -E "$filter" | cut -c1-200; }
rev e9d1614 F5 C09 C10
rev cc20b6f F9-new C15 C09
rev 497c42a F9-add C15 C09
rev eef3a59 F2 C03
rev abc5090 F1 C01
rev 8165218 F8ij C15
rev ba77f25 F8a C15
rev 14c19b7 F8params C15
rev 96774f4 F8h C15
rev 1cca87b F8k12 C15
rev 1089a0c F4 C01 C12
rev 2000096 F3 C06
rev 4c5f61c F6 C14 C04
rev 733a97d F7 C05
rev 9ede639 F10 C15
rev 9293df1 F11 C15
rev a808ea3 F12 C15
rev 9bb6695 F13 C06 C08
rev 6d63d7d F14 C15
rev 340452d F15 C04 C14
rev a2ac154 F16 C11
rev 09d730b F17 C02 C05
rev 84b7197 F18 C15 C14
rev 53e5464 F19 C15 C02
rev 6245a1e F20 C15
rev 44135f7 F21 C11
for d in /verif/seeded/*/; do
  id=$(basename $d)
  props=$(python3 -c "import json;print(' '.join(json.load(open('$d/meta.json')).get('caught_by') or []))")
  echo "######## seeded $id ($props)"
  python3 tools/try_patch.py $d/patch.diff $props 2>&1 | grep -E "$filter" | cut -c1-200
done
