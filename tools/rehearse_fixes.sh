#!/bin/sh
# Reverts each repair in turn (working tree only) and runs the checks that should notice.
cd /verif
run() { echo "######## revert $1 ($2)"; shift; c=$1; shift; shift; python3 tools/try_patch.py --reverse $c "$@" 2>&1 | grep -E "^== |CAUGHT|VIOLATION|patch does not" ; }
run x cc20b6f F9-new C15 C01 C09
run x 497c42a F9-add C15
run x eef3a59 F2 C03 C13
run x abc5090 F1 C01 C15
run x 8165218 F8ij C15
run x ba77f25 F8a C15
run x 14c19b7 F8params C15
run x 96774f4 F8h C15
run x 1cca87b F8k12 C15
run x 1089a0c F4 C01 C11 C12
run x 2000096 F3 C06 C02
run x 4c5f61c F6 C14 C04
run x 733a97d F7 C05
