#!/usr/bin/env python3
"""tools/confirm_seeded.py <PID> : confirm an independently seeded change in its scratch worktree
/tmp/wt/<PID> (patch in /tmp/wt/<PID>.out/patch.diff, demonstration files listed in DEMOS below):
 (1) the patched tree builds, (2) the existing suite passes with the patch and without the
 demonstration files, (3) the demonstration fails with the patch, (4) passes without it.
Writes /verif/seeded/<PID>/{patch.diff, demonstration files, meta.json}."""
import json
import os
import re
import shutil
import subprocess
import sys

DEMOS = {
    # pid: ([(file in .out, destination relative to the worktree)], demo command)
    "C01": ([("seeded_demo.rs", "tests/seeded_demo.rs")], "cargo test --offline --test seeded_demo"),
    "C03": ([("seeded_demo.rs", "bitar/tests/seeded_demo.rs"), ("seeded_demo_cli.rs", "tests/seeded_demo_cli.rs")],
            "cargo test --offline -p bitar --test seeded_demo && cargo test --offline -p bita --test seeded_demo_cli"),
    "C05": ([("demo.sh", "seeded_demo.sh")], "cargo build --offline && bash seeded_demo.sh"),
    "C06": ([("seeded_demo.rs", "bitar/tests/seeded_demo.rs")], "cargo test --workspace --offline --test seeded_demo"),
    "C09": ([("seeded_demo.rs", "bitar/tests/seeded_demo.rs")], "cargo test -p bitar --test seeded_demo --offline"),
}


def sh(cmd, cwd):
    e = dict(os.environ, RUST_BACKTRACE="0", CARGO_NET_OFFLINE="true")
    p = subprocess.run(cmd, shell=True, cwd=cwd, stdout=subprocess.PIPE, stderr=subprocess.STDOUT, text=True, env=e)
    return p.returncode, p.stdout


def main():
    pid = sys.argv[1]
    dest = "/verif/seeded/%s" % pid
    if pid == "--dir":
        # confirm_seeded.py --dir <worktree> <out dir with patch.diff + RUN.json> <name under /verif/seeded> <property>
        wt, out, name, pid = sys.argv[2:6]
        spec = json.load(open(os.path.join(out, "RUN.json")))
        DEMOS[pid] = ([tuple(x) for x in spec["files"]], spec["cmd"])
        dest = "/verif/seeded/%s" % name
    else:
        if len(sys.argv) > 2:
            spec = json.loads(sys.argv[2])
            DEMOS[pid] = ([tuple(x) for x in spec["files"]], spec["cmd"])
        wt, out = "/tmp/wt/%s" % pid, "/tmp/wt/%s.out" % pid
    files, cmd = DEMOS[pid]
    patch = os.path.join(out, "patch.diff")
    res = {}
    # clean state: only the patch
    sh("git checkout -- . && git clean -fdq -e target && git apply %s" % patch, wt)
    for _, dst in files:
        if os.path.exists(os.path.join(wt, dst)):
            os.remove(os.path.join(wt, dst))
    rc, o = sh("cargo build --offline 2>&1 | tail -3", wt)
    res["build_with_patch"] = "ok" if "Finished" in o else o[-300:]
    rc, o = sh("cargo test --workspace --no-fail-fast --offline 2>&1", wt)
    passed = sum(int(x) for x in re.findall(r"test result: ok\. (\d+) passed", o))
    failed = sum(int(x) for x in re.findall(r"(\d+) failed", o))
    res["existing_suite_with_patch"] = dict(passed=passed, failed=failed, exit=rc)
    for src, dst in files:
        os.makedirs(os.path.dirname(os.path.join(wt, dst)) or wt, exist_ok=True)
        shutil.copy(os.path.join(out, src), os.path.join(wt, dst))
    rc1, o1 = sh(cmd + " 2>&1", wt)
    res["demo_with_patch"] = dict(exit=rc1, tail=o1[-500:])
    sh("git apply -R %s" % patch, wt)
    rc2, o2 = sh(cmd + " 2>&1", wt)
    res["demo_without_patch"] = dict(exit=rc2, tail=o2[-300:])
    sh("git checkout -- . ; git clean -fdq -e target", wt)
    ok = res["build_with_patch"] == "ok" and passed == 92 and failed == 0 and rc1 != 0 and rc2 == 0
    res["confirmed"] = ok
    os.makedirs(dest, exist_ok=True)
    shutil.copy(patch, os.path.join(dest, "patch.diff"))
    for src, _ in files:
        shutil.copy(os.path.join(out, src), os.path.join(dest, src))
    for extra in ("RUN.txt", "RUN.json", "meta.txt"):
        if os.path.exists(os.path.join(out, extra)):
            shutil.copy(os.path.join(out, extra), os.path.join(dest, extra))
    meta = dict(property=pid, confirmation=res, demonstration=dict(files=[list(f) for f in files], command=cmd),
                what_it_needs="see meta.txt (written by the seeding agent)", checks_run="filled by tools/try_patch.py rehearsal, see DESIGN.md section 8")
    with open(os.path.join(dest, "meta.json"), "w") as f:
        json.dump(meta, f, indent=1)
    print(os.path.basename(dest), "CONFIRMED" if ok else "NOT CONFIRMED", json.dumps({k: (v if k != "demo_with_patch" else v["exit"]) for k, v in res.items() if k != "demo_without_patch"})[:400])


if __name__ == "__main__":
    main()
