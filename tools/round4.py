#!/usr/bin/env python3
"""Descriptions of the round-4 / round-5 seeded changes (written from the seeding agents' reports) and the
outcome of their rehearsal; `python3 tools/round4.py` updates seeded/*/meta.json and prints the DESIGN.md table."""
import json
import os

R = {
    # id: (change, needs, caught_by, history)
    "C01-r4A": ("src/clone_cmd.rs: set_len moved before the cloning and only done when the output is shorter; the final set_len removed",
                "--force-create (or --seed-output) over an existing LONGER file", ["C01", "C02"], "caught at once"),
    "C01-r4B": ("api/compress.rs dedup via entry().or_insert(): 'newest entry' taken as 'just inserted' - a repeat of the most recent unique chunk gets a second descriptor",
                "library writer, a chunk immediately repeated followed by a new one (A A B)", ["C01", "C11"], "caught at once"),
    "C02-r4A": ("clone_output.rs feed: offsets looked up with the FULL hash before remove (which truncates): a seed chunk is dropped from the index but never written",
                "archive with --hash-length < 64 and a seed holding a source chunk", ["C02"], "caught at once"),
    "C02-r4B": ("clone_output.rs: seek skipped when the wanted offset equals a tracked position that starts at 0 although the output scan moved the cursor",
                "--seed-output on a non-empty file, no chunk moved, first write at offset 0", ["C02", "C05"], "caught at once"),
    "C03-r4A": ("clone_output.rs reorder_in_place: chunk read back with ONE read_buf call instead of read_exact",
                "a real file output and a reusable chunk > 2 MiB that has to be moved or buffered", ["C03", "C13", "C05"],
                "MISSED at first by C03 and C13: the in-memory output of the executor suite took any read whole; it now hands out short reads (1, 2, 5 bytes) three cases in four"),
    "C03-r4B": ("src/clone_cmd.rs: output scan index built with HashSum::MAX_LEN instead of the archive's hash length (planner's exact `get` finds no destinations)",
                "--hash-length 4..63 with --seed-output and a reusable chunk at another offset", ["C03", "C06"], "caught at once"),
    "C04-r4A": ("clone_output.rs: seek skipped for 'sequential' writes; position advanced by the running total over all offsets of a repeated chunk",
                "a chunk that repeats, next write target equal to the miscalculated position (X X Y X)", ["C04", "C13", "C01"], "caught at once"),
    "C04-r4B": ("src/clone_cmd.rs: two cooperating edits - the output grown up front, final set_len kept only for --seed-output",
                "--force-create without --seed-output over a longer existing file (passes --verify-output)", ["C04", "C01"], "caught at once"),
    "C05-r4A": ("src/clone_cmd.rs: 'output is already up to date' fast path returns before the final truncate",
                "re-run in place over a crash state that holds every chunk but is longer than the source (fixed-size chunks)", ["C05", "C03"],
                "MISSED by C05 at first (caught by C03): c05_crash now starts from the crash states of a shrinking in-place update (all chunks in place, file still as long as the old one)"),
    "C05-r4B": ("clone_output.rs: chunks read back with a single take().read_buf() (as C03-r4A, found independently)",
                "a chunk > 2 MiB moved during the re-run", ["C05"], "MISSED at first by C05's own suites; caught since the executor suite (which C05 runs) reads in pieces"),
    "C06-r4A": ("clone_output.rs reorder_in_place: 'changed since the scan' re-check compares the full digest with the truncated key: every copy skipped",
                "--hash-length < 64 with --seed-output and chunks to move", ["C06", "C03"], "caught at once"),
    "C06-r4B": ("src/clone_cmd.rs: `.truncate(opts.force_create)` added to the output's open options",
                "--seed-output together with --force-create on an existing file", ["C06", "C14"],
                "MISSED by C06 at first (caught by C14 through the extracted open flags): c02_seeds now gives --force-create to a third of its in-place rows"),
    "C07-r4A": ("archive.rs try_init: chunk offsets derived by summing archive sizes instead of using the stored archive_offset",
                "a conforming archive with gaps / padding / permuted chunk data", ["C07", "C17"], "caught at once"),
    "C07-r4B": ("archive.rs chunk_stream: fast path 'index as long as the descriptor list => everything is wanted'",
                "an index with as many entries as the archive has descriptors but not derived from it (index of another release)", ["C07", "C06"],
                "MISSED at first (every archive-level case used a subset of the archive's own descriptors): every other case now adds foreign entries up to exactly / one more than the descriptor count"),
    "C08-r4A": ("http_reader.rs: the fragment buffer moved into HttpReader and no longer cleared per request",
                "a second read_chunks call on a reader whose earlier stream was dropped early or failed mid-body", ["C08"],
                "MISSED at first (one stream per reader): c08-http now has 120 histories on one reader judged as a fresh reader"),
    "C08-r4B": ("http_range_request.rs: is_transient() classifies errors for retry; reqwest reports a cut body as a decode error - never retried",
                "retry budget >= 1 and a body cut after the response head", ["C08", "C15"], "caught at once"),
    "C09-r4A": ("chunker/rolling_hash.rs: init loop and skip_min_chunk merged into prime_hasher() that only runs when offset == 0",
                "BuzHash, min < window, a first read shorter than the window", ["C09"], "caught at once (C10 as model mismatch only)"),
    "C09-r4B": ("streaming_chunker.rs: the chunker is not re-run when the buffer length equals the length at the last `None`",
                "a read exactly as long as the chunks cut after it, followed by EOF", ["C09"], "caught at once"),
    "C10-r4A": ("chunker/rolling_hash.rs skip_min_chunk: feed start ignores the scan offset - bytes fed twice after a refill",
                "min < window and a refill inside the first min-1 bytes of a chunk", ["C10", "C09"],
                "MISSED by C10 at first (caught by C09): the pairs of c10 were delivered whole; half of them now come in pieces, each stream in its own"),
    "C10-r4B": ("chunker/rolling_hash.rs: run-length shortcut whose state survives chunk boundaries",
                "a run ending a chunk and the same byte again at min-1 of the next chunk", ["C10", "C09"], "caught at once"),
    "C11-r4A": ("api/compress.rs: compression stage buffer_unordered, descriptors sorted afterwards (as C12-r2A, found independently)",
                "num_chunk_buffers >= 2, a later chunk finishing first", ["C11", "C12"], "caught at once"),
    "C11-r4B": ("src/compress_cmd.rs: stored-bytes rule via saturating_sub: equal-size compressed chunk stored compressed (as C01 round 1)",
                "a chunk whose compressed size equals its size", ["C11", "C01"], "caught at once"),
    "C12-r4A": ("src/compress_cmd.rs: temp file opened once read+write without truncate and read back through the handle",
                "a longer stale temp file left by an earlier failed run, rerun with -f", ["C12", "C11", "C16"],
                "MISSED by C12 at first (caught by C11/C16): c12 now has a run over the leftovers of an earlier run (stale temp file, longer output, -f)"),
    "C12-r4B": ("chunker/rolling_hash.rs: window fill loop restarts from index 0 of the buffer",
                "BuzHash, min < window, first reads shorter than the window", ["C12", "C09"], "caught at once"),
    "C13-r4A": ("chunk_index.rs strip_chunks_already_in_place: linear walk that steps past only one prior offset per source offset",
                "a repeated chunk with two or more prior occurrences below an in-place one", ["C13", "C03"], "caught at once"),
    "C13-r4B": ("clone_output.rs: early `continue` for the buffered-chunk case skips the removal from the clone index (as C06 round 1)",
                "cyclic move followed by a later phase delivering the chunk", ["C13", "C06"], "caught at once"),
    "C14-r4A": ("archive.rs try_init: size sum via reduce() - an empty rebuild order is 'nothing to check'",
                "an archive with no chunks and a non-zero declared source size", ["C14", "C15"], "caught at once"),
    "C14-r4B": ("src/compress_cmd.rs: an existing EMPTY output is taken over when create_new fails",
                "an existing zero-length file (or a block device) as output, no --force-create", ["C14", "C16"], "caught at once"),
    "C15-r4A": ("archive.rs + chunker/rolling_hash.rs: min > max tolerated, clamp applied after hash_input_limit is computed",
                "crafted archive with min >= max + window + 2, cloned with a seed", ["C15"], "caught at once"),
    "C15-r4B": ("http_range_request.rs: retry budget refilled whenever response headers arrive",
                "retries >= 1 and a server that sends headers but never a body byte", ["C15", "C08"], "caught at once"),
    "C16-r4A": ("src/clone_cmd.rs: shared `scan_options` OpenOptions keeps write+create after the output was opened through it",
                "--seed-output together with a --seed FILE", ["C16"], "caught at once"),
    "C16-r4B": ("src/compress_cmd.rs: temp file via create_new with fallback names, the configured name removed at the end",
                "a stale temp file at the temp path", ["C16", "C11"],
                "at first only as a broken tie (temp open flags / step order no longer as modelled, no failing input); c16_files now compresses over a stale temp file and judges the listing"),
    "C17-r4A": ("io_reader.rs: 'save a seek' read-over of gaps up to 4096 bytes, skip count not reset on the seek path",
                "conforming archive: a small gap followed by a backward jump", ["C17", "C08"], "caught at once"),
    "C17-r4B": ("hashsum.rs/chunk.rs: chunk verified with Blake2bVar of the truncated length (not a prefix of the 64-byte digest)",
                "any archive with hash length < 64", ["C17", "C04"], "caught at once"),
    # round 5: the command-line layer only
    "C04-r5A": ("string_utils.rs hex_str_to_vec over bytes.chunks_exact(2): an unpaired last character is ignored",
                "--verify-header <checksum><one more character>", ["C04", "C14"], "caught at once (l1 opts: model mismatch and the independent pin oracle)"),
    "C04-r5B": ("cli.rs: --verify-header read as a String and parsed leniently later - an unparsable text becomes 'no pin'",
                "a pin text with a non-hex character, a 0x prefix, trailing text", ["C04", "C14"],
                "caught at once by the model comparison; the oracle 'a given pin is checked' was added after reading this change, before the first run"),
    "C11-r5A": ("string_utils.rs parse_human_size table-driven on u32 with checked_shl (bits shifted out silently)",
                "a size with a unit whose value is 4 GiB or more (5GiB -> 1GiB)", ["C11", "C01"], "caught at once (l1 opts size table and the 32-bit oracle)"),
    "C11-r5B": ("cli.rs: --metadata-value through OsString + to_string_lossy",
                "a metadata value that is not UTF-8", ["C11"], "the raw-argument metadata cases of l1 opts were added after reading this change, before the first run"),
    "C14-r5A": ("string_utils.rs hex_str_to_vec via chunks(2): an odd-length text pads the LAST digit instead of the first",
                "a 127-digit text that is not the checksum, last checksum byte < 0x10", ["C14", "C04"], "caught at once (C14 runs l1 opts since this round)"),
    "C14-r5B": ("cli.rs: a --seed value equal to the OUTPUT path is dropped from the seeds and switches --seed-output on",
                "the existing output also named as a seed, no -f / --seed-output", ["C14", "C02"],
                "the clone option sets of l1 opts (model parseClone, seeds naming the output among them) were added after reading this change, before the first run"),
    # round 6: state carried between calls / phases / runs, sizes beyond internal thresholds, device kinds
    "C03-r6A": ("clone_output.rs: the Copy step moves a chunk through the scratch buffer in 1 MiB blocks (a forward memcpy on ranges that overlap themselves)",
                "--seed-output and a reusable chunk > 1 MiB moving towards the end by less than its own size", ["C03", "C13"],
                "MISSED at first (no large chunk was ever moved onto itself): c13_writes now has rows with 4 KiB inserted in front of 9 MiB chunked at 2-8 MiB"),
    "C03-r6B": ("chunk_index.rs build_reorder_ops: a `queued` set skips pushing a child that already waits on the DFS stack",
                "a destination covering two reusable chunks one of which moves onto the other", ["C03", "C13"], "caught at once"),
    "C06-r6A": ("src/clone_cmd.rs: `metadata().len() > 0` guard before the --seed-output scan (a block device reports 0)",
                "a REAL block device as output (the is_block_dev hook does not change what metadata() says)", ["C06"],
                "MISSED at first (block devices were only exercised through the hook): c02_seeds now clones in place onto real loop devices when it can attach one"),
    "C06-r6B": ("chunk_index.rs: `if !visited.insert(h)` marks a child as expanded when it is pushed: no Copy for it, it is fetched instead",
                "prior output as seed, a moving chunk whose destination overlaps another needed chunk", ["C06", "C03"], "caught at once"),
    "C08-r6A": ("io_reader.rs IoChunkReader: buffer grown in 1 MiB blocks by min(chunk size, 1 MiB) instead of what is still missing",
                "a range larger than 1 MiB that is not a multiple of it", ["C08"],
                "MISSED at first (local ranges up to 4000 bytes): c08-io now reads ranges of 1 MiB +- 1, 1.5 MiB, 2 MiB + x under whole and fragmented reads"),
    "C08-r6B": ("http_reader.rs: the range list sorted before the reader is built", "a list that is not ascending by offset", ["C08", "C17"], "caught at once"),
    "C12-r6A": ("src/compress_cmd.rs: output opened with create(true) - truncate lost for --force-create",
                "--force-create over a longer existing archive", ["C12", "C11"], "caught at once (the leftovers row of round 4)"),
    "C12-r6B": ("build.rs / chunk_dictionary.rs: the metadata map regenerated as a HashMap", "two or more metadata entries", ["C12", "C11"], "caught at once"),
    "C13-r6A": ("clone_output.rs: a write cursor that starts at 0 although the output scan moved the handle (as C02-r4B, found independently)",
                "--seed-output, first write at offset 0, nothing moved before", ["C13", "C05"], "caught at once"),
    "C13-r6B": ("src/clone_cmd.rs: the in-place reorder moved after the seed phases (as C03-r2B, found independently)",
                "--seed-output together with --seed or stdin", ["C13", "C03", "C02"], "caught at once"),
}


def main():
    rows = []
    for sid, (change, needs, caught, history) in sorted(R.items()):
        mp = "/verif/seeded/%s/meta.json" % sid
        if os.path.exists(mp):
            m = json.load(open(mp))
            m.update(dict(round=int(sid.split("-r")[1][0]), change=change, what_it_needs=needs, breaks=sid[:3], caught_by=caught,
                          history=history or "caught at once",
                          what_was_run="tools/confirm_seeded.py --dir <scratch worktree> (build, 92 tests with the patch, demonstration fails with / "
                                       "passes without); tools/try_patch.py in a private mount namespace (a clone of /repo bound over /repo, a copy of /verif)"))
            json.dump(m, open(mp, "w"), indent=1)
        rows.append("| %s | %s | %s | %s | %s |" % (sid, change, needs, ", ".join(caught), history or "caught at once"))
    print("\n".join(rows))


if __name__ == "__main__":
    main()
