#!/usr/bin/env python3
"""tools/try_patch.py [--reverse] <patch file | commit> <property>... : apply a change to /repo's working
tree, run the named checks (quick tier), print their verdicts, and restore /repo (git checkout -- .).
Used to rehearse that the checks catch seeded changes and reverted repairs.  Never commits."""
import os
import subprocess
import sys
import time

REPO = "/repo"
VERIF = os.path.dirname(os.path.dirname(os.path.abspath(__file__)))   # a scratch copy of /verif works too


def sh(cmd, **kw):
    return subprocess.run(cmd, stdout=subprocess.PIPE, stderr=subprocess.STDOUT, text=True, **kw)


def main():
    args = sys.argv[1:]
    reverse = False
    if args and args[0] == "--reverse":
        reverse = True
        args = args[1:]
    tier = "quick"
    if args and args[0] == "--thorough":
        tier = "thorough"
        args = args[1:]
    what, props = args[0], args[1:]
    assert sh(["git", "-C", REPO, "status", "--porcelain", "--untracked-files=no"]).stdout.strip() == "", "/repo not clean"
    if os.path.exists(what):
        patch = open(what).read()
    else:
        patch = sh(["git", "-C", REPO, "show", "--format=", what]).stdout
    p = subprocess.run(["git", "-C", REPO, "apply"] + (["-R"] if reverse else []) + ["-"], input=patch, text=True,
                       stdout=subprocess.PIPE, stderr=subprocess.STDOUT)
    if p.returncode != 0:
        print("patch does not apply:", p.stdout)
        return 2
    results = {}
    try:
        for pid in props:
            t0 = time.time()
            r = sh([os.path.join(VERIF, "check"), pid, "--tier", tier], cwd=VERIF)
            lines = [l for l in r.stdout.split("\n") if l.startswith("VIOLATION") or l.startswith("check ") or l.startswith("KNOWN")]
            detail = [l for l in r.stdout.split("\n") if l.startswith("  ")][:6]
            results[pid] = (r.returncode, lines, detail, time.time() - t0)
            print("== %s exit=%d (%.0fs)" % (pid, r.returncode, time.time() - t0))
            for l in lines + detail:
                print("   ", l[:260])
    finally:
        sh(["git", "-C", REPO, "checkout", "--", "."])
        # regenerated Gen files belong to the unchanged tree again after the next check run
        sh(["python3", "-c", "import sys; sys.path.insert(0,%r); from vlib import extract\ntry:\n extract.run('restore')\nexcept Exception as e: print(e)" % VERIF], cwd=VERIF)
    caught = [p for p, r in results.items() if r[0] != 0]
    print("CAUGHT BY:", caught if caught else "nothing")
    return 0


if __name__ == "__main__":
    sys.exit(main())
