#!/bin/sh
# Runs every check (default: quick tier) on /repo as it is and prints one line per property.
cd /verif
tier=${1:-quick}
for p in C01 C02 C03 C04 C05 C06 C07 C08 C09 C10 C11 C12 C13 C14 C15 C16 C17; do
  ./check $p --tier $tier 2>&1 | grep -E "^check |^VIOLATION|^KNOWN" 
done
