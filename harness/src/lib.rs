//! Shared pieces of the L1 (in-process) correspondence harness.
//!
//! Every random choice is drawn from one xorshift state seeded from VERIF_SEED, so that a
//! disagreement replays exactly.  Output is a line protocol: `CASE\t<request>\t<impl answer>`
//! where `<request>` is a request line for the Lean driver (`bitamodel`).

pub mod httpsrv;
pub mod scripted_io;

use std::fmt::Write as _;

#[derive(Clone)]
pub struct Rng(pub u64);

impl Rng {
    pub fn new(seed: u64) -> Self {
        Rng(seed.wrapping_mul(0x9E37_79B9_7F4A_7C15) ^ 0x2545_F491_4F6C_DD1D | 1)
    }
    pub fn next(&mut self) -> u64 {
        let mut x = self.0;
        x ^= x << 13;
        x ^= x >> 7;
        x ^= x << 17;
        self.0 = x;
        x.wrapping_mul(0x2545_F491_4F6C_DD1D)
    }
    /// uniform in 0..n (n > 0)
    pub fn below(&mut self, n: u64) -> u64 {
        (self.next() >> 11) % n
    }
    pub fn range(&mut self, lo: u64, hi: u64) -> u64 {
        lo + self.below(hi - lo + 1)
    }
    pub fn chance(&mut self, num: u64, den: u64) -> bool {
        self.below(den) < num
    }
    pub fn pick<'a, T>(&mut self, xs: &'a [T]) -> &'a T {
        &xs[self.below(xs.len() as u64) as usize]
    }
}

pub fn seed_from_env() -> u64 {
    std::env::var("VERIF_SEED")
        .ok()
        .and_then(|s| s.parse::<u64>().ok())
        .unwrap_or(1)
}

/// FNV-1a 32 bit (same as `Driver.fnv1a`).
pub fn fnv1a(b: &[u8]) -> u32 {
    let mut h: u32 = 2166136261;
    for &x in b {
        h = (h ^ x as u32).wrapping_mul(16777619);
    }
    h
}

/// `<len>:<fnv1a>` (same as `Driver.digest`).
pub fn digest(b: &[u8]) -> String {
    format!("{}:{}", b.len(), fnv1a(b))
}

/// The deterministic test pattern (same as `Driver.patternByte`).
pub fn pattern_byte(i: usize) -> u8 {
    ((i * 131 + (i / 251) * 17 + 7) % 256) as u8
}

pub fn pattern(len: usize) -> Vec<u8> {
    (0..len).map(pattern_byte).collect()
}

pub fn hex(b: &[u8]) -> String {
    if b.is_empty() {
        return "-".into();
    }
    let mut s = String::with_capacity(b.len() * 2);
    for x in b {
        write!(s, "{:02x}", x).unwrap();
    }
    s
}

pub fn join<T: AsRef<str>>(xs: &[T], sep: &str) -> String {
    if xs.is_empty() {
        "-".into()
    } else {
        xs.iter().map(|s| s.as_ref()).collect::<Vec<_>>().join(sep)
    }
}

pub fn emit_case(request: &str, answer: &str) {
    println!("CASE\t{}\t{}", request, answer);
}

pub fn emit_stat(key: &str, value: impl std::fmt::Display) {
    println!("STAT\t{}\t{}", key, value);
}

/// An oracle failure of the implementation itself (independent of the model).
pub fn emit_oracle_fail(what: &str, request: &str) {
    println!("ORACLE\t{}\t{}", what, request);
}

/// The implementation did not come back from an announced input within the watchdog time: report it
/// as an oracle failure and end the suite at once (a spinning task cannot be cancelled).
pub fn hung(request: &str) -> ! {
    use std::io::Write;
    println!("ORACLE\timplementation-hung\t{}", request);
    println!("STAT\tsuite_ended_early_by_watchdog\t1");
    let _ = std::io::stdout().flush();
    std::process::exit(0)
}

/// Run a closure catching panics; the default panic hook is silenced by the caller.
pub fn catch<T>(f: impl FnOnce() -> T) -> Result<T, String> {
    match std::panic::catch_unwind(std::panic::AssertUnwindSafe(f)) {
        Ok(v) => Ok(v),
        Err(e) => {
            let msg = if let Some(s) = e.downcast_ref::<&str>() {
                s.to_string()
            } else if let Some(s) = e.downcast_ref::<String>() {
                s.clone()
            } else {
                "panic".to_string()
            };
            Err(msg)
        }
    }
}

pub fn silence_panics() {
    std::panic::set_hook(Box::new(|_| {}));
}


/// A global allocator that remembers the largest single request since the last reset: lets a suite
/// judge "memory chosen by the data, not by a declared size" in-process.
pub mod alloc_probe {
    use std::alloc::{GlobalAlloc, Layout, System};
    use std::sync::atomic::{AtomicUsize, Ordering};

    pub struct Counting;
    static MAX_REQ: AtomicUsize = AtomicUsize::new(0);

    unsafe impl GlobalAlloc for Counting {
        unsafe fn alloc(&self, l: Layout) -> *mut u8 {
            MAX_REQ.fetch_max(l.size(), Ordering::Relaxed);
            System.alloc(l)
        }
        unsafe fn dealloc(&self, p: *mut u8, l: Layout) {
            System.dealloc(p, l)
        }
        unsafe fn realloc(&self, p: *mut u8, l: Layout, new_size: usize) -> *mut u8 {
            MAX_REQ.fetch_max(new_size, Ordering::Relaxed);
            System.realloc(p, l, new_size)
        }
        unsafe fn alloc_zeroed(&self, l: Layout) -> *mut u8 {
            MAX_REQ.fetch_max(l.size(), Ordering::Relaxed);
            System.alloc_zeroed(l)
        }
    }

    pub fn reset() {
        MAX_REQ.store(0, Ordering::Relaxed);
    }
    pub fn max_request() -> usize {
        MAX_REQ.load(Ordering::Relaxed)
    }
}
