//! In-memory files with scripted behaviour: short reads, `Pending`, errors, a log of every
//! seek / read / write, and failing or torn writes.

use std::io::{self, SeekFrom};
use std::pin::Pin;
use std::task::{Context, Poll};

use tokio::io::{AsyncRead, AsyncSeek, AsyncWrite, ReadBuf};

#[derive(Clone, Copy, Debug, PartialEq, Eq)]
pub enum ReadEv {
    Pending,
    Bytes(usize),
    Err,
}

impl ReadEv {
    pub fn token(&self) -> String {
        match self {
            ReadEv::Pending => "p".into(),
            ReadEv::Bytes(n) => format!("b{}", n),
            ReadEv::Err => "e".into(),
        }
    }
}

/// Read-only file whose `poll_read` follows a script.  When the script is exhausted every read
/// fails with an error whose message is "stall" (the model's `stall`).
pub struct ScriptedFile {
    pub data: Vec<u8>,
    pub pos: u64,
    pub script: std::collections::VecDeque<ReadEv>,
    pub seek_pending: bool,
    pub seek_target: Option<u64>,
    /// when set: the highest file position any read has reached is published here
    pub pos_probe: Option<std::sync::Arc<std::sync::atomic::AtomicU64>>,
    pub pend_seeks: bool,
    /// when the script runs out: if Some(n) behave as Bytes(n) forever instead of stalling
    pub default_read: Option<usize>,
    pub reads: usize,
}

impl ScriptedFile {
    pub fn new(data: Vec<u8>, script: Vec<ReadEv>) -> Self {
        Self {
            data,
            pos: 0,
            script: script.into(),
            seek_pending: false,
            seek_target: None,
            pos_probe: None,
            pend_seeks: false,
            default_read: None,
            reads: 0,
        }
    }
}

impl AsyncRead for ScriptedFile {
    fn poll_read(
        mut self: Pin<&mut Self>,
        cx: &mut Context<'_>,
        buf: &mut ReadBuf<'_>,
    ) -> Poll<io::Result<()>> {
        let ev = match self.script.pop_front() {
            Some(e) => e,
            None => match self.default_read {
                Some(n) => ReadEv::Bytes(n),
                None => return Poll::Ready(Err(io::Error::new(io::ErrorKind::Other, "stall"))),
            },
        };
        match ev {
            ReadEv::Pending => {
                cx.waker().wake_by_ref();
                Poll::Pending
            }
            ReadEv::Err => Poll::Ready(Err(io::Error::new(io::ErrorKind::Other, "scripted"))),
            ReadEv::Bytes(n) => {
                self.reads += 1;
                let pos = (self.pos as usize).min(self.data.len());
                let k = n.min(buf.remaining()).min(self.data.len() - pos);
                buf.put_slice(&self.data[pos..pos + k]);
                self.pos += k as u64;
                if let Some(p) = &self.pos_probe {
                    p.fetch_max(self.pos, std::sync::atomic::Ordering::SeqCst);
                }
                Poll::Ready(Ok(()))
            }
        }
    }
}

impl AsyncSeek for ScriptedFile {
    /// The seek takes effect when `poll_complete` reports it done (after one or two `Pending`s when
    /// `pend_seeks` is set); a read issued before that still reads at the old position, as a reader
    /// whose seek completes asynchronously may.
    fn start_seek(mut self: Pin<&mut Self>, position: SeekFrom) -> io::Result<()> {
        let len = self.data.len() as i64;
        let base = self.seek_target.unwrap_or(self.pos);
        let np = match position {
            SeekFrom::Start(p) => p as i64,
            SeekFrom::End(d) => len + d,
            SeekFrom::Current(d) => base as i64 + d,
        };
        if np < 0 {
            return Err(io::Error::new(io::ErrorKind::InvalidInput, "negative seek"));
        }
        self.seek_target = Some(np as u64);
        self.seek_pending = self.pend_seeks;
        Ok(())
    }
    fn poll_complete(mut self: Pin<&mut Self>, cx: &mut Context<'_>) -> Poll<io::Result<u64>> {
        if self.seek_pending {
            self.seek_pending = false;
            cx.waker().wake_by_ref();
            return Poll::Pending;
        }
        if let Some(t) = self.seek_target.take() {
            self.pos = t;
        }
        Poll::Ready(Ok(self.pos))
    }
}

#[derive(Clone, Debug, PartialEq, Eq)]
pub enum IoOp {
    Seek(u64),
    Read(u64, usize),
    Write(u64, Vec<u8>),
    Flush,
}

/// What happens at the k-th write call (0-based).
#[derive(Clone, Copy, Debug, PartialEq, Eq)]
pub enum WriteFault {
    None,
    /// the k-th write fails with an error, nothing is written
    Fail(usize),
    /// the k-th write stores only its first t bytes and then fails
    Tear(usize, usize),
}

/// Read/write in-memory file that logs every operation.  Writes past the end extend the file
/// with zeros (sparse extension); reads at the end return 0 bytes.
pub struct MemFile {
    pub data: Vec<u8>,
    pub pos: u64,
    pub log: Vec<IoOp>,
    pub fault: WriteFault,
    pub writes: usize,
    /// split every write into pieces of at most this many bytes (0 = whole)
    pub max_write: usize,
    pub max_read: usize,
}

impl MemFile {
    pub fn new(data: Vec<u8>) -> Self {
        Self {
            data,
            pos: 0,
            log: Vec::new(),
            fault: WriteFault::None,
            writes: 0,
            max_write: 0,
            max_read: 0,
        }
    }
    fn store(&mut self, bytes: &[u8]) {
        let pos = self.pos as usize;
        if self.data.len() < pos + bytes.len() {
            self.data.resize(pos + bytes.len(), 0);
        }
        self.data[pos..pos + bytes.len()].copy_from_slice(bytes);
        // merge with the previous write when it is its direct continuation (write_all pieces)
        let (cur, merge) = (self.pos, self.max_write != 0);
        if let Some(IoOp::Write(o, b)) = self.log.last_mut() {
            if *o + b.len() as u64 == cur && merge {
                b.extend_from_slice(bytes);
                self.pos += bytes.len() as u64;
                return;
            }
        }
        self.log.push(IoOp::Write(self.pos, bytes.to_vec()));
        self.pos += bytes.len() as u64;
    }
}

impl AsyncRead for MemFile {
    fn poll_read(
        mut self: Pin<&mut Self>,
        _cx: &mut Context<'_>,
        buf: &mut ReadBuf<'_>,
    ) -> Poll<io::Result<()>> {
        let pos = (self.pos as usize).min(self.data.len());
        let mut k = buf.remaining().min(self.data.len() - pos);
        if self.max_read != 0 {
            k = k.min(self.max_read);
        }
        buf.put_slice(&self.data[pos..pos + k]);
        let p = self.pos;
        if let Some(IoOp::Read(o, n)) = self.log.last_mut() {
            if *o + *n as u64 == p {
                *n += k;
                self.pos += k as u64;
                return Poll::Ready(Ok(()));
            }
        }
        self.log.push(IoOp::Read(p, k));
        self.pos += k as u64;
        Poll::Ready(Ok(()))
    }
}

impl AsyncSeek for MemFile {
    fn start_seek(mut self: Pin<&mut Self>, position: SeekFrom) -> io::Result<()> {
        let len = self.data.len() as i64;
        let np = match position {
            SeekFrom::Start(p) => p as i64,
            SeekFrom::End(d) => len + d,
            SeekFrom::Current(d) => self.pos as i64 + d,
        };
        if np < 0 {
            return Err(io::Error::new(io::ErrorKind::InvalidInput, "negative seek"));
        }
        self.pos = np as u64;
        let p = self.pos;
        self.log.push(IoOp::Seek(p));
        Ok(())
    }
    fn poll_complete(self: Pin<&mut Self>, _cx: &mut Context<'_>) -> Poll<io::Result<u64>> {
        Poll::Ready(Ok(self.pos))
    }
}

impl AsyncWrite for MemFile {
    fn poll_write(
        mut self: Pin<&mut Self>,
        _cx: &mut Context<'_>,
        buf: &[u8],
    ) -> Poll<io::Result<usize>> {
        // A "write" for fault purposes is one write_all, i.e. a maximal sequence of poll_write
        // calls continuing each other; with max_write = 0 each poll_write is a whole write.
        let k = self.writes;
        self.writes += 1;
        match self.fault {
            WriteFault::Fail(i) if i == k => {
                return Poll::Ready(Err(io::Error::new(io::ErrorKind::Other, "scripted write failure")));
            }
            WriteFault::Tear(i, t) if i == k => {
                let t = t.min(buf.len());
                let part = buf[..t].to_vec();
                self.store(&part);
                return Poll::Ready(Err(io::Error::new(io::ErrorKind::Other, "scripted torn write")));
            }
            _ => {}
        }
        let n = if self.max_write != 0 { buf.len().min(self.max_write) } else { buf.len() };
        let part = buf[..n].to_vec();
        self.store(&part);
        Poll::Ready(Ok(n))
    }
    fn poll_flush(mut self: Pin<&mut Self>, _cx: &mut Context<'_>) -> Poll<io::Result<()>> {
        self.log.push(IoOp::Flush);
        Poll::Ready(Ok(()))
    }
    fn poll_shutdown(self: Pin<&mut Self>, _cx: &mut Context<'_>) -> Poll<io::Result<()>> {
        Poll::Ready(Ok(()))
    }
}
