//! The option layer of the command line (src/cli.rs, src/string_utils.rs, compiled into this harness by
//! `#[path]` modules in main.rs) against `Bita.Model.Options`: size texts, `--verify-header` texts,
//! whole `bita compress` option sets.

use crate::cli;
use crate::string_utils;
use bita_verif_harness as h;
use h::Rng;

fn hx(s: &str) -> String {
    if s.is_empty() {
        "e".to_string()
    } else {
        h::hex(s.as_bytes())
    }
}

fn size_case(text: &str) {
    let req = format!("opts-size {}", hx(text));
    let ans = match h::catch(|| string_utils::parse_human_size(text)) {
        Ok(Ok(v)) => format!("ok {}", v),
        Ok(Err(_)) => "refused".to_string(),
        Err(_) => "panic".to_string(),
    };
    h::emit_case(&req, &ans);
}

/// Independent reading of a checksum text: what the bytes of a `--verify-header` value must be.
fn pin_oracle(text: &str, got: &[u8]) -> bool {
    // drop nothing, add at most one leading zero nibble; every pair is two hex digits or '+' and one
    let t: Vec<char> = text.chars().collect();
    if !t.iter().all(|c| c.is_ascii()) {
        return false;
    }
    let mut t = t;
    if t.len() % 2 == 1 {
        t.insert(0, '0');
    }
    if got.len() != t.len() / 2 || got.len() > 64 {
        return false;
    }
    for (i, b) in got.iter().enumerate() {
        let (a, c) = (t[2 * i], t[2 * i + 1]);
        let want = if a == '+' {
            c.to_digit(16)
        } else {
            match (a.to_digit(16), c.to_digit(16)) {
                (Some(x), Some(y)) => Some(16 * x + y),
                _ => None,
            }
        };
        if want != Some(*b as u32) {
            return false;
        }
    }
    true
}

fn pin_case(text: &str) {
    let req = format!("opts-pin {}", hx(text));
    let args = ["bita", "clone", "--verify-header", text, "http://verif.invalid/a.cba", "out.img"];
    let ans = match h::catch(|| cli::parse_opts(args)) {
        Ok(Ok((cli::CommandOpts::Clone(o), _))) => match o.header_checksum {
            Some(hs) => {
                if !pin_oracle(text, hs.slice()) {
                    h::emit_oracle_fail("pin-bytes-are-not-what-the-text-denotes", &req);
                }
                format!("ok {}", if hs.slice().is_empty() { "e".to_string() } else { h::hex(hs.slice()) })
            }
            None => {
                h::emit_oracle_fail("verify-header-given-but-no-checksum-is-checked", &req);
                "ok none".to_string()
            }
        },
        Ok(Ok(_)) => "other".to_string(),
        Ok(Err(_)) => "refused".to_string(),
        Err(_) => "panic".to_string(),
    };
    h::emit_case(&req, &ans);
}

#[derive(Default, Clone)]
struct CArgs {
    input: Option<String>,
    output: String,
    force: bool,
    avg: Option<String>,
    min: Option<String>,
    max: Option<String>,
    algo: Option<String>,
    window: Option<String>,
    fixed: Option<String>,
    level: Option<String>,
    compression: Option<String>,
    hash_length: Option<String>,
    buffered: Option<String>,
}

fn opt(o: &Option<String>) -> String {
    match o {
        None => "-".to_string(),
        Some(s) => hx(s),
    }
}

fn show_cfg(c: &bitar::chunker::Config) -> String {
    use bitar::chunker::Config;
    match c {
        Config::BuzHash(f) => format!("B:{}:{}:{}:{}", f.filter_bits.bits(), f.min_chunk_size, f.max_chunk_size, f.window_size),
        Config::RollSum(f) => format!("R:{}:{}:{}:{}", f.filter_bits.bits(), f.min_chunk_size, f.max_chunk_size, f.window_size),
        Config::FixedSize(n) => format!("F:{}", n),
    }
}

fn compress_case(a: &CArgs) {
    let req = format!(
        "opts-compress {} {} {} {} {} {} {} {} {} {} {} {} {}",
        opt(&a.input),
        hx(&a.output),
        a.force as u8,
        opt(&a.avg),
        opt(&a.min),
        opt(&a.max),
        opt(&a.algo),
        opt(&a.window),
        opt(&a.fixed),
        opt(&a.level),
        opt(&a.compression),
        opt(&a.hash_length),
        opt(&a.buffered)
    );
    let mut args: Vec<String> = vec!["bita".into(), "compress".into()];
    let mut push = |k: &str, v: &Option<String>| {
        if let Some(v) = v {
            args.push(k.to_string());
            args.push(v.clone());
        }
    };
    push("--avg-chunk-size", &a.avg);
    push("--min-chunk-size", &a.min);
    push("--max-chunk-size", &a.max);
    push("--hash-chunking", &a.algo);
    push("--rolling-window-size", &a.window);
    push("--fixed-size", &a.fixed);
    push("--compression-level", &a.level);
    push("--compression", &a.compression);
    push("--hash-length", &a.hash_length);
    push("--buffered-chunks", &a.buffered);
    push("-i", &a.input);
    if a.force {
        args.push("-f".into());
    }
    args.push(a.output.clone());
    let ans = match h::catch(|| cli::parse_opts(args.clone())) {
        Ok(Ok((cli::CommandOpts::Compress(o), _))) => {
            // the property-level oracle (C11, F21): whatever is accepted fits the 32 bit fields it is recorded in
            let fits = match &o.chunker_config {
                bitar::chunker::Config::BuzHash(f) | bitar::chunker::Config::RollSum(f) => {
                    f.min_chunk_size <= u32::MAX as usize && f.max_chunk_size <= u32::MAX as usize && f.window_size <= u32::MAX as usize
                }
                bitar::chunker::Config::FixedSize(n) => *n <= u32::MAX as usize,
            };
            if !fits || o.hash_length < 1 || o.hash_length > 64 {
                h::emit_oracle_fail("accepted-options-do-not-fit-the-dictionary-fields", &req);
            }
            let compr = match &o.compression {
                None => "none".to_string(),
                Some(c) => {
                    let d = format!("{:?}", c);
                    let algo = if d.contains("Brotli") { "brotli" } else { "other" };
                    let level = d.split("level: ").nth(1).map(|s| s.trim_end_matches(|c: char| !c.is_ascii_digit()).to_string()).unwrap_or_default();
                    format!("{}:{}", algo, level)
                }
            };
            format!(
                "ok cfg={} hl={} compr={} temp={} stdin={} buf={} force={}",
                show_cfg(&o.chunker_config),
                o.hash_length,
                compr,
                hx(&o.temp_file.to_string_lossy()),
                o.input.is_none() as u8,
                if a.buffered.is_some() { o.num_chunk_buffers.to_string() } else { "-".to_string() },
                o.force_create as u8
            )
        }
        Ok(Ok(_)) => "other".to_string(),
        Ok(Err(_)) => "refused".to_string(),
        Err(_) => "panic".to_string(),
    };
    h::emit_case(&req, &ans);
}

struct ClArgs {
    pin: Option<String>,
    seeds: Vec<String>,
    retries: Option<String>,
    delay: Option<String>,
    timeout: Option<String>,
    buffered: Option<String>,
    seed_output: bool,
    force: bool,
    verify_output: bool,
    archive: String,
    kind: &'static str,
    output: String,
}

fn clone_case(a: &ClArgs) {
    let req = format!(
        "opts-clone {} {} {} {} {} {} {} {} {} {} {} {}",
        opt(&a.pin),
        if a.seeds.is_empty() { "-".to_string() } else { h::join(&a.seeds.iter().map(|s| hx(s)).collect::<Vec<_>>(), ",") },
        opt(&a.retries),
        opt(&a.delay),
        opt(&a.timeout),
        opt(&a.buffered),
        a.seed_output as u8,
        a.force as u8,
        a.verify_output as u8,
        hx(&a.archive),
        a.kind,
        hx(&a.output)
    );
    let mut args: Vec<String> = vec!["bita".into(), "clone".into()];
    if let Some(p) = &a.pin {
        args.push("--verify-header".into());
        args.push(p.clone());
    }
    for s in &a.seeds {
        args.push("--seed".into());
        args.push(s.clone());
    }
    for (k, v) in [("--http-retry-count", &a.retries), ("--http-retry-delay", &a.delay), ("--http-timeout", &a.timeout), ("--buffered-chunks", &a.buffered)] {
        if let Some(v) = v {
            args.push(k.to_string());
            args.push(v.clone());
        }
    }
    if a.seed_output {
        args.push("--seed-output".into());
    }
    if a.force {
        args.push("--force-create".into());
    }
    if a.verify_output {
        args.push("--verify-output".into());
    }
    args.push(a.archive.clone());
    args.push(a.output.clone());
    let show = |o: Option<u64>| o.map(|v| v.to_string()).unwrap_or("-".to_string());
    let ans = match h::catch(|| cli::parse_opts(args.clone())) {
        Ok(Ok((cli::CommandOpts::Clone(o), _))) => {
            // property-level oracles (C14, C02, C04): in-place and overwrite only when asked for; every seed file
            // given is used, in order, and nothing else; a given pin is a pin
            let want_seeds: Vec<&String> = a.seeds.iter().filter(|s| *s != "-").collect();
            let got_seeds: Vec<String> = o.seed_files.iter().map(|p| p.to_string_lossy().to_string()).collect();
            if o.seed_output != a.seed_output || o.force_create != a.force || o.verify_output != a.verify_output {
                h::emit_oracle_fail("clone-flags-differ-from-the-command-line", &req);
            }
            if got_seeds.len() != want_seeds.len() || got_seeds.iter().zip(want_seeds.iter()).any(|(g, w)| g != *w) || o.seed_stdin != a.seeds.iter().any(|s| s == "-") {
                h::emit_oracle_fail("seed-list-differs-from-the-command-line", &req);
            }
            if a.pin.is_some() && o.header_checksum.is_none() {
                h::emit_oracle_fail("verify-header-given-but-no-checksum-is-checked", &req);
            }
            let (place, retries, delay, timeout) = match &o.input_archive {
                crate::clone_cmd::InputArchive::Local(_) => ("local", 0u64, 0u64, None),
                crate::clone_cmd::InputArchive::Remote(r) => ("remote", r.retries as u64, r.retry_delay.as_secs(), r.receive_timeout.map(|d| d.as_secs())),
            };
            // the model reports the parsed numbers for local archives too (clap parses them either way)
            let (retries, delay, timeout) = if place == "local" {
                (
                    a.retries.as_ref().and_then(|t| t.trim_start_matches('+').parse::<u64>().ok()).unwrap_or(0),
                    a.delay.as_ref().and_then(|t| t.trim_start_matches('+').parse::<u64>().ok()).unwrap_or(0),
                    a.timeout.as_ref().and_then(|t| t.trim_start_matches('+').parse::<u64>().ok()),
                )
            } else {
                (retries, delay, timeout)
            };
            format!(
                "ok {} pin={} out={} seeds={} stdin={} so={} force={} vo={} retries={} delay={} timeout={} buf={}",
                place,
                match &o.header_checksum {
                    None => "none".to_string(),
                    Some(hs) => if hs.slice().is_empty() { "e".to_string() } else { h::hex(hs.slice()) },
                },
                hx(&o.output.to_string_lossy()),
                if got_seeds.is_empty() { "-".to_string() } else { h::join(&got_seeds.iter().map(|s| hx(s)).collect::<Vec<_>>(), ",") },
                o.seed_stdin as u8,
                o.seed_output as u8,
                o.force_create as u8,
                o.verify_output as u8,
                retries,
                delay,
                show(timeout),
                if a.buffered.is_some() { o.num_chunk_buffers.to_string() } else { "-".to_string() }
            )
        }
        Ok(Ok(_)) => "other".to_string(),
        Ok(Err(_)) => "refused".to_string(),
        Err(_) => "panic".to_string(),
    };
    h::emit_case(&req, &ans);
}

const NUMS: &[&str] = &[
    "0", "1", "2", "3", "4", "5", "7", "8", "9", "15", "16", "17", "63", "64", "65", "100", "255", "256", "1000", "1023", "1024", "1025",
    "4095", "4096", "65535", "65536", "65537", "1048576", "16777216", "2147483647", "2147483648", "4294967294", "4294967295",
    "4294967296", "4294967297", "8589934592", "17179869183", "17179869184", "17592186044415", "17592186044416", "18014398509481983",
    "18014398509481984", "9223372036854775807", "9223372036854775808", "18446744073709551615", "18446744073709551616",
    "99999999999999999999999", "007", "00", "+5", "+0", "++5", "+", "-5", "-0", "-", "", " 5", "5 ", "5_0", "0x10", "1e3", "5.0", "٣", "５",
];
const UNITS: &[&str] = &["", "B", "KiB", "MiB", "GiB", "TiB", "kib", "KIB", "K", "M", "G", "b", "KB", "KiBs", "iB", " KiB", "Bé", "é", "BB"];

fn size_text(r: &mut Rng) -> String {
    match r.below(10) {
        0..=5 => format!("{}{}", r.pick(NUMS), r.pick(UNITS)),
        6 => format!("{}{}", r.below(1 << 20), r.pick(&["", "B", "KiB", "MiB", "GiB"])),
        7 => format!("{}{}", r.next() >> r.below(64), r.pick(&["", "B", "KiB", "MiB", "GiB"])),
        8 => {
            let alphabet: Vec<char> = "0123456789+-KMGiB éx_.".chars().collect();
            (0..r.below(6)).map(|_| *r.pick(&alphabet)).collect()
        }
        _ => format!("{}{}{}", r.pick(UNITS), r.pick(NUMS), r.pick(UNITS)),
    }
}

fn hex_text(r: &mut Rng) -> String {
    let digits: Vec<char> = "0123456789abcdefABCDEF".chars().collect();
    let odd: Vec<char> = "+-gG xX_é٣\u{1F600}.".chars().collect();
    let len = match r.below(8) {
        0 => r.below(6),
        1 => 126 + r.below(6),
        2 => 128,
        3 => 127,
        4 => 129 + r.below(4),
        _ => r.below(140),
    };
    let noisy = r.chance(1, 2);
    (0..len)
        .map(|_| if noisy && r.chance(1, 12) { *r.pick(&odd) } else { *r.pick(&digits) })
        .collect()
}

pub async fn opts(seed: u64, thorough: bool) {
    let mut r = Rng::new(seed ^ 0x0915);
    // 1. size texts: the whole table, then random ones
    let mut n = 0;
    for num in NUMS {
        for unit in UNITS {
            size_case(&format!("{}{}", num, unit));
            n += 1;
        }
    }
    for _ in 0..(if thorough { 6000 } else { 1500 }) {
        size_case(&size_text(&mut r));
        n += 1;
    }
    h::emit_stat("opts_size_cases", n);
    // 2. checksum texts
    let mut n = 0;
    let full: String = (0..64).map(|i| format!("{:02x}", (i * 37 + 11) % 256)).collect();
    let mut specials: Vec<String> = vec![
        "".into(), "0".into(), "00".into(), "+f".into(), "+".into(), "f+".into(), "-f".into(), "é".into(), "aé".into(), "éa".into(), "0éa".into(),
        "ab\u{1F600}".into(), "a\u{1F600}b".into(), "\u{1F600}".into(), "٣٣".into(), "a٣".into(), "g0".into(), "0g".into(), " 0".into(), "0 ".into(),
        full.clone(), full.to_uppercase(), format!("{}00", full), format!("0{}", full), format!("00{}", full), format!("{}0", full),
        full[..126].to_string(), full[..127].to_string(), full[1..].to_string(), format!("+{}", &full[1..]), format!("{}+", &full[..127]),
        format!("{}é", full), format!("é{}", full), format!("{}\u{1F600}", &full[..124]),
    ];
    for k in 0..8 {
        specials.push(full[..k].to_string());
    }
    for t in &specials {
        pin_case(t);
        n += 1;
    }
    for _ in 0..(if thorough { 4000 } else { 1000 }) {
        pin_case(&hex_text(&mut r));
        n += 1;
    }
    h::emit_stat("opts_pin_cases", n);
    // 3. whole `bita compress` option sets
    let outputs = ["out.cba", "dir/a.b.c", ".hidden", "noext", "x.", "a/b.d/c", "a.tmp", "/tmp/x/y.cba"];
    let sizes_small = ["0", "1", "2", "3", "4", "5", "7", "8", "16", "64", "1KiB", "4KiB", "16KiB", "64KiB", "1MiB", "16MiB"];
    let sizes_big = ["2147483648", "4294967295", "4294967296", "4GiB", "3GiB", "4095MiB", "4096MiB", "4097MiB", "17179869184GiB", "18446744073709551615"];
    let mut n = 0;
    let total = if thorough { 12000 } else { 3000 };
    for i in 0..total {
        let mut a = CArgs { output: r.pick(&outputs).to_string(), ..Default::default() };
        let size = |r: &mut Rng, p_some: u64| -> Option<String> {
            if !r.chance(p_some, 10) {
                return None;
            }
            Some(match r.below(20) {
                0..=11 => r.pick(&sizes_small).to_string(),
                12..=15 => r.pick(&sizes_big).to_string(),
                16..=17 => size_text(r),
                _ => format!("{}", r.below(1 << 22)),
            })
        };
        if i % 3 == 0 {
            // mostly coherent: min <= avg <= max drawn in order
            let e_avg = 2 + r.below(22);
            let e_min = r.below(e_avg + 1);
            let e_max = e_avg + r.below(34 - e_avg);
            let jitter = |r: &mut Rng, e: u64| -> String {
                let v = (1u64 << e) + if r.chance(2, 5) { r.below(1 << e) } else { 0 };
                if r.chance(1, 3) && v % 1024 == 0 { format!("{}KiB", v / 1024) } else { v.to_string() }
            };
            a.avg = Some(jitter(&mut r, e_avg));
            a.min = if r.chance(1, 2) { Some(jitter(&mut r, e_min)) } else { Some("0".into()) };
            a.max = Some(jitter(&mut r, e_max));
        } else {
            a.avg = size(&mut r, 6);
            a.min = size(&mut r, 5);
            a.max = size(&mut r, 5);
        }
        // coherent rows keep the remaining options mostly valid, so that most of them are accepted
        let coherent = i % 3 == 0;
        let noise = |r: &mut Rng| -> bool { if coherent { r.chance(1, 12) } else { r.chance(1, 3) } };
        a.algo = match r.below(8) {
            0..=2 => None,
            3..=4 => Some("RollSum".into()),
            5..=6 => Some("BuzHash".into()),
            _ => if noise(&mut r) { Some(r.pick(&["rollsum", "Buzhash", "", "Fixed"]).to_string()) } else { None },
        };
        a.window = match r.below(8) {
            0..=3 => None,
            4 => Some(r.pick(&["0", "1", "16B", "64B", "4KiB"]).to_string()),
            5 => if noise(&mut r) { Some(r.pick(&sizes_big).to_string()) } else { Some(r.pick(&["8", "32B", "1KiB"]).to_string()) },
            _ => if noise(&mut r) { size(&mut r, 10) } else { None },
        };
        a.fixed = if r.chance(1, if coherent { 12 } else { 6 }) { size(&mut r, 10) } else { None };
        a.level = match r.below(6) {
            0..=2 => None,
            _ => if noise(&mut r) {
                Some(r.pick(&["0", "12", "22", "-1", "4294967295", "4294967296", "x", ""]).to_string())
            } else {
                Some(r.pick(&["1", "6", "9", "11", "+6", "06"]).to_string())
            },
        };
        a.compression = match r.below(6) {
            0..=2 => None,
            3 => Some("none".into()),
            4 => Some("brotli".into()),
            _ => if noise(&mut r) { Some(r.pick(&["zstd", "lzma", "Brotli", "None", ""]).to_string()) } else { None },
        };
        a.hash_length = match r.below(6) {
            0..=2 => None,
            _ => if noise(&mut r) {
                Some(r.pick(&["0", "1", "3", "65", "-4", "4.0", "9223372036854775807", "9223372036854775808", ""]).to_string())
            } else {
                Some(r.pick(&["4", "5", "8", "32", "63", "64", "+8", "08"]).to_string())
            },
        };
        a.buffered = if r.chance(1, 4) {
            if noise(&mut r) {
                Some(r.pick(&["-1", "x", "18446744073709551616"]).to_string())
            } else {
                Some(r.pick(&["0", "1", "2", "64", "+3", "18446744073709551615"]).to_string())
            }
        } else {
            None
        };
        a.input = if r.chance(1, 2) { Some("in.img".into()) } else { None };
        a.force = r.chance(1, 3);
        compress_case(&a);
        n += 1;
    }
    h::emit_stat("opts_compress_cases", n);
    // 4. whole `bita clone` option sets: an existing local file, a missing absolute path, URLs, a relative
    // name that does not exist; seeds in any number and order (the output's own name and `-` among them)
    let existing = std::env::current_exe().map(|p| p.to_string_lossy().to_string()).unwrap_or("/proc/self/exe".into());
    let full: String = (0..64).map(|i| format!("{:02x}", (i * 29 + 3) % 256)).collect();
    let seed_names = ["a.img", "b.img", "out.img", "dir/c", "-", "a.img", ".", "x y", "é"];
    let mut n = 0;
    for i in 0..(if thorough { 6000 } else { 1500 }) {
        let (archive, kind): (String, &'static str) = match r.below(6) {
            0 | 1 => (existing.clone(), "existing"),
            2 => ("/verif-no-such-dir/none.cba".into(), "missing-abs"),
            3 => (r.pick(&["http://verif.invalid/a.cba", "https://h.example:8443/x/y.cba?q=1", "http://127.0.0.1:9/a"]).to_string(), "url"),
            4 => ("http://verif.invalid/a.cba".into(), "url"),
            _ => (r.pick(&["no-such-file.cba", "dir/none", "none"]).to_string(), "neither"),
        };
        let output = r.pick(&["out.img", "dir/out", "a.img", "/dev/null"]).to_string();
        let nseeds = if r.chance(1, 3) { 0 } else { r.below(5) as usize };
        let seeds: Vec<String> = (0..nseeds).map(|_| r.pick(&seed_names).to_string()).collect();
        let num = |r: &mut Rng, p: u64| -> Option<String> {
            if !r.chance(p, 10) {
                return None;
            }
            Some(if i % 4 == 0 {
                r.pick(&["0", "1", "3", "+2", "007", "4294967295", "4294967296", "18446744073709551615", "18446744073709551616", "-1", "x", "", "1.5"]).to_string()
            } else {
                r.pick(&["0", "1", "2", "5", "+4", "60"]).to_string()
            })
        };
        let a = ClArgs {
            pin: match r.below(6) {
                0 => Some(full.clone()),
                1 => Some(hex_text(&mut r)),
                2 if i % 4 == 0 => Some(r.pick(&["", "zz", "0x00", "-ab"]).to_string()),
                _ => None,
            },
            seeds,
            retries: num(&mut r, 3),
            delay: num(&mut r, 2),
            timeout: num(&mut r, 2),
            buffered: num(&mut r, 2),
            seed_output: r.chance(1, 3),
            force: r.chance(1, 3),
            verify_output: r.chance(1, 3),
            archive,
            kind,
            output,
        };
        clone_case(&a);
        n += 1;
    }
    h::emit_stat("opts_clone_cases", n);
    // 5. `--metadata-value KEY VALUE` with raw (possibly not UTF-8) arguments: refused, or handed on byte for byte
    {
        use std::ffi::OsString;
        use std::os::unix::ffi::OsStringExt;
        let pieces: Vec<Vec<u8>> = vec![
            b"k".to_vec(), b"key two".to_vec(), b"".to_vec(), "Bj\u{f6}rn".as_bytes().to_vec(), vec![0x42, 0x6a, 0xf6, 0x72, 0x6e], vec![0xff],
            vec![0xc3], vec![0xe2, 0x82], vec![0xed, 0xa0, 0x80], vec![0xf0, 0x9f, 0x98, 0x80], b"v=1".to_vec(), b"a,b:c".to_vec(),
        ];
        let mut n = 0;
        for _ in 0..(if thorough { 1200 } else { 300 }) {
            let npairs = r.range(1, 3) as usize;
            let pairs: Vec<(Vec<u8>, Vec<u8>)> = (0..npairs)
                .map(|_| {
                    let k = if r.chance(5, 6) { r.pick(&pieces[..4]).clone() } else { r.pick(&pieces).clone() };
                    let valid = [0usize, 1, 2, 3, 9, 10, 11];
                    (k, if r.chance(3, 4) { pieces[*r.pick(&valid)].clone() } else { r.pick(&pieces).clone() })
                })
                .collect();
            // a value that starts with `-` is not taken as a value by clap; none of the pieces does
            let req = format!(
                "opts-meta {}",
                h::join(&pairs.iter().map(|(k, v)| format!("{}:{}", if k.is_empty() { "e".to_string() } else { h::hex(k) }, if v.is_empty() { "e".to_string() } else { h::hex(v) })).collect::<Vec<_>>(), ",")
            );
            let mut args: Vec<OsString> = vec!["bita".into(), "compress".into()];
            for (k, v) in &pairs {
                args.push("--metadata-value".into());
                args.push(OsString::from_vec(k.clone()));
                args.push(OsString::from_vec(v.clone()));
            }
            args.push("out.cba".into());
            let ans = match h::catch(|| cli::parse_opts(args.clone())) {
                Ok(Ok((cli::CommandOpts::Compress(o), _))) => {
                    let got: Vec<(Vec<u8>, Vec<u8>)> = o.metadata_strings.iter().map(|(k, v)| (k.as_bytes().to_vec(), v.as_bytes().to_vec())).collect();
                    if got != pairs {
                        h::emit_oracle_fail("metadata-values-not-handed-on-verbatim", &req);
                    }
                    format!(
                        "ok {}",
                        h::join(&got.iter().map(|(k, v)| format!("{}:{}", if k.is_empty() { "e".to_string() } else { h::hex(k) }, if v.is_empty() { "e".to_string() } else { h::hex(v) })).collect::<Vec<_>>(), ",")
                    )
                }
                Ok(Ok(_)) => "other".to_string(),
                Ok(Err(_)) => "refused".to_string(),
                Err(_) => "panic".to_string(),
            };
            h::emit_case(&req, &ans);
            n += 1;
        }
        h::emit_stat("opts_metadata_cases", n);
    }
}
