//! C11 / C15 / C17 / C04 (library level): protobuf layer, header builder and Archive::try_init.

use std::collections::BTreeMap;
use std::io::Cursor;

use bita_verif_harness as h;
use bitar::archive_reader::IoReader;
use bitar::chunk_dictionary as dict;
use bitar::chunker::Config;
use bitar::Archive;
use blake2::{Blake2b512, Digest};
use futures_util::StreamExt;
use h::Rng;
use prost::Message;

fn dots(v: &[u64]) -> String {
    h::join(&v.iter().map(|x| x.to_string()).collect::<Vec<_>>(), ".")
}

pub fn dict_token(d: &dict::ChunkDictionary) -> String {
    let cp = match &d.chunker_params {
        None => "-".to_string(),
        Some(p) => dots(&[
            p.chunk_filter_bits as u64,
            p.min_chunk_size as u64,
            p.max_chunk_size as u64,
            p.rolling_hash_window_size as u64,
            p.chunk_hash_length as u64,
            p.chunking_algorithm as u32 as u64,
        ]),
    };
    let cc = match &d.chunk_compression {
        None => "-".to_string(),
        Some(c) => dots(&[c.compression as u32 as u64, c.compression_level as u64]),
    };
    let cd: Vec<String> = d
        .chunk_descriptors
        .iter()
        .map(|c| format!("{}:{}:{}:{}", h::hex(&c.checksum), c.archive_size, c.archive_offset, c.source_size))
        .collect();
    let md: Vec<String> = d
        .metadata
        .iter()
        .map(|(k, v)| format!("{}:{}", h::hex(k.as_bytes()), h::hex(v)))
        .collect();
    format!(
        "v={};sc={};ts={};cp={};cc={};ro={};cd={};md={}",
        h::hex(d.application_version.as_bytes()),
        h::hex(&d.source_checksum),
        d.source_total_size,
        cp,
        cc,
        dots(&d.rebuild_order.iter().map(|x| *x as u64).collect::<Vec<_>>()),
        h::join(&cd, ","),
        h::join(&md, ",")
    )
}

fn rand_bytes(rng: &mut Rng, max: usize) -> Vec<u8> {
    let n = rng.below(max as u64 + 1) as usize;
    (0..n).map(|_| rng.below(256) as u8).collect()
}

fn rand_u32(rng: &mut Rng) -> u32 {
    match rng.below(8) {
        0 => 0,
        1 => 1,
        2 => 127,
        3 => 128,
        4 => u32::MAX,
        5 => u32::MAX - 1,
        6 => rng.below(70000) as u32,
        _ => rng.next() as u32,
    }
}

fn rand_u64(rng: &mut Rng) -> u64 {
    match rng.below(7) {
        0 => 0,
        1 => u64::MAX,
        2 => u64::MAX - 100,
        3 => 1 << 32,
        4 => rng.below(100000),
        _ => rng.next(),
    }
}

fn rand_string(rng: &mut Rng) -> String {
    let n = rng.below(6) as usize;
    (0..n)
        .map(|_| *rng.pick(&['a', 'Z', '0', '.', 'é', '日', '\u{1F600}', '\0', ' ']))
        .collect()
}

pub fn rand_dict(rng: &mut Rng, wild: bool) -> dict::ChunkDictionary {
    let ncd = rng.below(5) as usize;
    let descriptors: Vec<dict::ChunkDescriptor> = (0..ncd)
        .map(|_| dict::ChunkDescriptor {
            checksum: { let m = if wild && rng.chance(1, 5) { 70 } else { 16 }; rand_bytes(rng, m) },
            archive_size: if wild { rand_u32(rng) } else { rng.range(1, 50) as u32 },
            archive_offset: if wild { rand_u64(rng) } else { rng.below(500) },
            source_size: if wild { rand_u32(rng) } else { rng.range(1, 50) as u32 },
        })
        .collect();
    let nro = rng.below(7) as usize;
    let rebuild_order: Vec<u32> = (0..nro)
        .map(|_| if wild && rng.chance(1, 4) { rand_u32(rng) } else { rng.below(ncd.max(1) as u64) as u32 })
        .collect();
    let params = dict::ChunkerParameters {
        chunk_filter_bits: if wild { *rng.pick(&[0u32, 1, 5, 30, 31, 32, 33, 40, u32::MAX]) } else { rng.range(1, 24) as u32 },
        min_chunk_size: if wild { rand_u32(rng) } else { rng.below(20) as u32 },
        max_chunk_size: if wild { rand_u32(rng) } else { rng.range(64, 200) as u32 },
        rolling_hash_window_size: if wild { *rng.pick(&[0u32, 1, 16, 64, 100000, u32::MAX]) } else { rng.range(1, 64) as u32 },
        chunk_hash_length: if wild { *rng.pick(&[0u32, 1, 4, 64, 65, u32::MAX]) } else { rng.range(4, 64) as u32 },
        chunking_algorithm: if wild { *rng.pick(&[0i32, 1, 2, 3, -1, i32::MAX, i32::MIN]) } else { rng.below(3) as i32 },
    };
    let compression = dict::ChunkCompression {
        compression: if wild { *rng.pick(&[0i32, 1, 2, 3, 4, -1, i32::MIN]) } else { *rng.pick(&[0i32, 3]) },
        compression_level: if wild { rand_u32(rng) } else { rng.below(12) as u32 },
    };
    let mut metadata = BTreeMap::new();
    for _ in 0..rng.below(4) {
        metadata.insert(rand_string(rng), rand_bytes(rng, 6));
    }
    dict::ChunkDictionary {
        application_version: if rng.chance(1, 6) { String::new() } else { rand_string(rng) },
        source_checksum: { let m = if wild && rng.chance(1, 5) { 70 } else { 64 }; rand_bytes(rng, m) },
        source_total_size: if wild { rand_u64(rng) } else { rng.below(100000) },
        chunker_params: if wild && rng.chance(1, 8) { None } else { Some(params) },
        chunk_compression: if wild && rng.chance(1, 8) { None } else { Some(compression) },
        rebuild_order,
        chunk_descriptors: descriptors,
        metadata,
    }
}

fn varint(mut n: u64) -> Vec<u8> {
    let mut v = Vec::new();
    loop {
        if n < 128 {
            v.push(n as u8);
            return v;
        }
        v.push((n % 128 + 128) as u8);
        n /= 128;
    }
}

/// Wire-level additions prost must tolerate or reject: unknown fields, groups, duplicates, ...
fn craft_extra(rng: &mut Rng) -> Vec<u8> {
    let tag = *rng.pick(&[9u64, 15, 16, 100, 2047, (1 << 29) - 1, 0, 1 << 29]);
    match rng.below(15) {
        0 => [varint(tag << 3), varint(rand_u64(rng))].concat(),
        1 => [varint(tag << 3 | 1), vec![1, 2, 3, 4, 5, 6, 7, 8]].concat(),
        2 => {
            let b = rand_bytes(rng, 5);
            [varint(tag << 3 | 2), varint(b.len() as u64), b].concat()
        }
        3 => [varint(tag << 3 | 5), vec![9, 9, 9, 9]].concat(),
        4 => [varint(tag << 3 | 3), varint(7 << 3), varint(5), varint(tag << 3 | 4)].concat(), // group
        5 => [varint(tag << 3 | 3), varint(7 << 3), varint(5)].concat(), // unterminated group
        6 => varint(tag << 3 | 4), // stray end group
        7 => varint(tag << 3 | 6), // invalid wire type
        8 => [varint(6 << 3), varint(rng.below(5))].concat(), // unpacked rebuild_order
        9 => [varint(3 << 3), varint(rand_u64(rng))].concat(), // duplicate scalar (source_total_size)
        11 => {
            // groups nested to a depth around prost's recursion limit, properly closed
            let depth = *rng.pick(&[1u64, 2, 3, 50, 98, 99, 100, 101, 102, 150]);
            let mut v = Vec::new();
            for i in 0..depth {
                v.extend(varint((tag + i) << 3 | 3));
            }
            v.extend([varint(7 << 3), varint(5)].concat());
            for i in (0..depth).rev() {
                v.extend(varint((tag + i) << 3 | 4));
            }
            v
        }
        12 => [varint(tag << 3 | 3), varint(7 << 3), varint(5), varint((tag + 1) << 3 | 4)].concat(), // end group of another field
        13 => {
            // a group holding every wire type, a nested group and sometimes a short tail
            let b = rand_bytes(rng, 4);
            let mut v = [
                varint(tag << 3 | 3),
                varint(7 << 3),
                varint(rand_u64(rng)),
                varint(8 << 3 | 1),
                vec![1, 2, 3, 4, 5, 6, 7, 8],
                varint(9 << 3 | 2),
                varint(b.len() as u64),
                b,
                varint(10 << 3 | 3),
                varint(11 << 3 | 5),
                vec![9, 9, 9, 9],
                varint(10 << 3 | 4),
                varint(12 << 3 | 5),
                vec![9, 9, 9, 9],
                varint(tag << 3 | 4),
            ]
            .concat();
            if rng.below(3) == 0 {
                let cut = rng.below(v.len() as u64) as usize;
                v.truncate(cut);
            }
            v
        }
        10 => vec![0x08 | 0x80, 0x80, 0x80, 0x80, 0x80, 0x80, 0x80, 0x80, 0x80, 0x80, 0x01], // overlong key varint
        _ => [varint(1 << 3 | 2), varint(2), vec![0xff, 0xfe]].concat(), // invalid UTF-8 version
    }
}

pub fn build_header_raw(magic: &[u8], dict_bytes: &[u8], declared_size: Option<u64>, offset: Option<u64>) -> Vec<u8> {
    let mut hd = Vec::new();
    hd.extend_from_slice(magic);
    hd.extend_from_slice(&declared_size.unwrap_or(dict_bytes.len() as u64).to_le_bytes());
    hd.extend_from_slice(dict_bytes);
    let off = offset.unwrap_or(hd.len() as u64 + 8 + 64);
    hd.extend_from_slice(&off.to_le_bytes());
    let mut hasher = Blake2b512::new();
    hasher.update(&hd);
    hd.extend_from_slice(&hasher.finalize());
    hd
}

fn config_token(c: &Config) -> String {
    match c {
        Config::RollSum(f) => format!("R:{}:{}:{}:{}", f.filter_bits.bits(), f.min_chunk_size, f.max_chunk_size, f.window_size),
        Config::BuzHash(f) => format!("B:{}:{}:{}:{}", f.filter_bits.bits(), f.min_chunk_size, f.max_chunk_size, f.window_size),
        Config::FixedSize(n) => format!("F:{}", n),
    }
}

fn archive_summary(a: &Archive<IoReader<Cursor<Vec<u8>>>>) -> String {
    let cd: Vec<String> = a
        .chunk_descriptors()
        .iter()
        .map(|c| format!("{}:{}:{}:{}", h::hex(c.checksum.slice()), c.archive_size, c.archive_offset, c.source_size))
        .collect();
    let co = match a.chunk_compression() {
        None => "-".to_string(),
        Some(c) => {
            let cc = dict::ChunkCompression::from(Some(c));
            format!("{}.{}", cc.compression, cc.compression_level)
        }
    };
    let md: Vec<String> = a.metadata_iter().map(|(k, v)| format!("{}:{}", h::hex(k.as_bytes()), h::hex(v))).collect();
    // source order is not public: recover it from iter_source_chunks by descriptor identity
    let ro: Vec<u64> = a
        .iter_source_chunks()
        .map(|(_, cd)| {
            a.chunk_descriptors().iter().position(|x| std::ptr::eq(x, cd)).unwrap_or(usize::MAX) as u64
        })
        .collect();
    format!(
        "ok cfg={} hl={} co={} hs={} hc={} cdo={} ts={} sc={} v={} ro={} cd={} md={}",
        config_token(a.chunker_config()),
        a.chunk_hash_length(),
        co,
        a.header_size(),
        h::hex(&a.header_checksum().slice()[..8.min(a.header_checksum().len())]),
        a.chunk_data_offset(),
        a.total_source_size(),
        h::hex(a.source_checksum().slice()),
        h::hex(a.built_with_version().as_bytes()),
        dots(&ro),
        h::join(&cd, ","),
        h::join(&md, ",")
    )
}

pub struct St {
    pub cases: usize,
    pub kinds: BTreeMap<String, usize>,
}

/// try-init + banner on one byte string
pub async fn try_init_case(bytes: Vec<u8>, st: &mut St, label: &str) {
    // a declared dictionary size far beyond the data: opened in-process under the allocation probe (the
    // largest single request must follow the bytes that exist, not the size that is declared)
    let mut declared_huge = false;
    if bytes.len() >= 14 {
        let ds = u64::from_le_bytes(bytes[6..14].try_into().unwrap());
        if ds > (64 << 20) {
            declared_huge = true;
            *st.kinds.entry("huge-declared-size-under-allocation-probe".into()).or_default() += 1;
        }
    }
    let req = format!("try-init {}", h::hex(&bytes));
    // announced first: if the process dies (abort) the orchestrator knows on which input
    println!("TRY\t{}", req);
    let b2 = bytes.clone();
    h::alloc_probe::reset();
    let res = tokio::spawn(async move {
        match Archive::try_init(IoReader::new(Cursor::new(b2))).await {
            Ok(a) => {
                let summary = archive_summary(&a);
                // banner arithmetic + source index + a bounded scan of a seed with the declared config
                let banner = h::catch(|| {
                    let (avg, mask) = match a.chunker_config() {
                        Config::FixedSize(_) => (0u64, 0u64),
                        Config::BuzHash(f) | Config::RollSum(f) => {
                            (f.filter_bits.chunk_target_average() as u64, f.filter_bits.mask() as u64)
                        }
                    };
                    let n = a.chunk_descriptors().len() as u64;
                    let total: u64 = a.chunk_descriptors().iter().map(|c| c.source_size as u64).sum();
                    let mean = total.checked_div(n).unwrap_or(0);
                    let ix = a.build_source_index();
                    // HashSum's Eq (prefix equality) is not consistent with its Hash when checksums of
                    // different lengths are prefix-related: the HashMap may or may not merge them,
                    // depending on its random state.  Only compare the index size when it is defined.
                    let hl = a.chunk_hash_length();
                    let keys: Vec<Vec<u8>> = a
                        .chunk_descriptors()
                        .iter()
                        .map(|c| c.checksum.slice()[..c.checksum.len().min(hl)].to_vec())
                        .collect();
                    let ambiguous = keys.iter().any(|x| {
                        keys.iter().any(|y| x.len() != y.len() && x[..x.len().min(y.len())] == y[..x.len().min(y.len())])
                    });
                    format!(
                        "ok avg={} mask={} mean={} index={}",
                        avg,
                        mask,
                        mean,
                        if ambiguous { "?".to_string() } else { ix.len().to_string() }
                    )
                });
                let cfg = a.chunker_config().clone();
                (summary, Some(banner), Some(cfg))
            }
            Err(bitar::ArchiveError::InvalidArchive(_)) => ("invalid".to_string(), None, None),
            Err(bitar::ArchiveError::ReaderError(_)) => ("reader-err".to_string(), None, None),
        }
    })
    .await;
    let (summary, banner, cfg) = match res {
        Ok(x) => x,
        Err(_) => ("panic".to_string(), None, None),
    };
    if declared_huge {
        let biggest = h::alloc_probe::max_request();
        if biggest > 2 * bytes.len() + (2 << 20) {
            h::emit_oracle_fail(
                "allocation-follows-the-declared-size-not-the-data",
                &format!("{} :: largest single allocation request {} bytes for a {} byte file", req, biggest, bytes.len()),
            );
        }
    }
    let class = summary.split(' ').next().unwrap().to_string();
    *st.kinds.entry(format!("{}:{}", label, class)).or_default() += 1;
    if class == "panic" {
        h::emit_oracle_fail("try-init-panic", &req);
    }
    h::emit_case(&req, &summary);
    st.cases += 1;
    if let Some(b) = banner {
        let breq = format!("banner {}", h::hex(&bytes));
        match b {
            Ok(s) if s.ends_with("index=?") => {
                h::emit_case(&format!("banner-noindex {}", h::hex(&bytes)), &s);
            }
            Ok(s) => h::emit_case(&breq, &s),
            Err(_) => {
                h::emit_case(&breq, "panic");
                h::emit_oracle_fail("banner-or-index-panic", &breq);
            }
        }
    }
    if let Some(cfg) = cfg {
        // accepted archive is safe: scanning a seed with its parameters neither panics nor runs away
        let seed: Vec<u8> = (0..3000usize).map(|i| if i % 700 < 300 { 0 } else { h::pattern_byte(i) }).collect();
        let r = tokio::spawn(async move {
            let mut n = 0usize;
            let mut s = cfg.new_chunker(&seed[..]);
            while let Some(c) = s.next().await {
                if c.is_err() {
                    break;
                }
                n += 1;
                if n > 3001 {
                    return Err(());
                }
            }
            Ok(n)
        })
        .await;
        match r {
            Ok(Ok(_)) => {}
            Ok(Err(())) => h::emit_oracle_fail("unbounded-chunking-with-accepted-parameters", &req),
            Err(_) => h::emit_oracle_fail("chunker-panic-with-accepted-parameters", &req),
        }
    }
}

pub async fn fmt(seed: u64, thorough: bool) {
    let mut rng = Rng::new(seed ^ 0xF0);
    let mut st = St { cases: 0, kinds: BTreeMap::new() };
    let n = if thorough { 6000 } else { 700 };
    for i in 0..n {
        let wild = i % 3 == 0;
        let d = rand_dict(&mut rng, wild);
        let tok = dict_token(&d);
        let enc = d.encode_to_vec();
        // 1. encoder, byte-exact
        h::emit_case(&format!("encode-dict {}", tok), &h::hex(&enc));
        // 2. decoder on the encoding, on crafted additions and on mutations
        let mut variants: Vec<Vec<u8>> = vec![enc.clone()];
        for _ in 0..3 {
            let mut v = enc.clone();
            let extra = craft_extra(&mut rng);
            let pos = if rng.chance(1, 2) { v.len() } else { 0 };
            v.splice(pos..pos, extra);
            variants.push(v);
        }
        for _ in 0..3 {
            let mut v = enc.clone();
            if v.is_empty() {
                continue;
            }
            match rng.below(3) {
                0 => {
                    let i = rng.below(v.len() as u64) as usize;
                    v[i] ^= 1 << rng.below(8);
                }
                1 => {
                    let k = rng.below(v.len() as u64) as usize;
                    v.truncate(k);
                }
                _ => {
                    let i = rng.below(v.len() as u64) as usize;
                    v.insert(i, rng.below(256) as u8);
                }
            }
            variants.push(v);
        }
        for v in &variants {
            let ans = match dict::ChunkDictionary::decode(&v[..]) {
                Ok(d2) => dict_token(&d2),
                Err(_) => "error".to_string(),
            };
            *st.kinds.entry(format!("decode:{}", if ans == "error" { "error" } else { "ok" })).or_default() += 1;
            h::emit_case(&format!("decode-dict {}", h::hex(v)), &ans);
        }
        // 3. header builder
        let off = if rng.chance(1, 3) { Some(rand_u64(&mut rng)) } else { None };
        let hd = bitar::header::build(&d, off).unwrap();
        h::emit_case(
            &format!("header {} {}", tok, off.map(|o| o.to_string()).unwrap_or("-".into())),
            &h::hex(&hd),
        );
        // 4. try_init: the header as built (+ some chunk data), structure-aware mutants already
        //    come from `wild`; plus wire-level crafted dictionaries under a recomputed checksum,
        //    declared-size lies, both magics, bit flips and truncations
        let mut file = hd.clone();
        file.extend((0..40).map(|j| j as u8));
        try_init_case(file.clone(), &mut st, if wild { "wild" } else { "plain" }).await;
        for (k, v) in variants.iter().enumerate().skip(1).take(3) {
            let magic: &[u8] = if k % 2 == 0 { b"BITA1\0" } else { b"\0BITA1" };
            let f = build_header_raw(magic, v, None, None);
            try_init_case(f, &mut st, "crafted").await;
        }
        if i % 4 == 0 {
            let declared = *rng.pick(&[0u64, 1, enc.len() as u64 + 1, enc.len() as u64 + 200, u64::MAX, u64::MAX - 71, u64::MAX - 72, u64::MAX - 80, 1 << 62]);
            let f = build_header_raw(b"BITA1\0", &enc, Some(declared), None);
            try_init_case(f, &mut st, "declared-size").await;
            let f = build_header_raw(b"BITA1\0", &enc, None, Some(*rng.pick(&[0u64, u64::MAX, u64::MAX - 3, 5])));
            try_init_case(f, &mut st, "offset").await;
        }
        if i % 5 == 0 {
            for _ in 0..3 {
                let mut f = file.clone();
                let pos = rng.below(f.len() as u64) as usize;
                f[pos] ^= 1 << rng.below(8);
                try_init_case(f, &mut st, "bitflip").await;
            }
            let k = rng.below(file.len() as u64 + 1) as usize;
            try_init_case(file[..k].to_vec(), &mut st, "truncated").await;
        }
    }
    // random bytes
    for _ in 0..(if thorough { 2000 } else { 200 }) {
        let mut b = rand_bytes(&mut rng, 120);
        if rng.chance(1, 2) && b.len() >= 6 {
            b[..6].copy_from_slice(b"BITA1\0");
        }
        try_init_case(b, &mut st, "random").await;
    }
    // what building a chunker from declared parameters asks the allocator for (C15: bounded by the declared
    // window - four bytes per entry for BuzHash - and the 1 MiB stream buffer), against the model
    let mut n_alloc = 0;
    for &w in &[1usize, 16, 64, 1000, 65536, 262144, 262145, 300000, 1 << 20, (1 << 20) + 1, 3 << 20, 5_000_000] {
        for algo in ["R", "B", "F"] {
            let (cfg, tok) = match algo {
                "R" => (
                    Config::RollSum(bitar::chunker::FilterConfig {
                        filter_bits: bitar::chunker::FilterBits::from_bits(10),
                        min_chunk_size: 0,
                        max_chunk_size: w.max(4096),
                        window_size: w,
                    }),
                    format!("R 10 0 {} {}", w.max(4096), w),
                ),
                "B" => (
                    Config::BuzHash(bitar::chunker::FilterConfig {
                        filter_bits: bitar::chunker::FilterBits::from_bits(10),
                        min_chunk_size: 0,
                        max_chunk_size: w.max(4096),
                        window_size: w,
                    }),
                    format!("B 10 0 {} {}", w.max(4096), w),
                ),
                _ => (Config::FixedSize(w), format!("F {}", w)),
            };
            let req = format!("chunker-alloc {}", tok);
            println!("TRY\t{}", req);
            h::alloc_probe::reset();
            let r = h::catch(|| {
                let chunker = cfg.new_chunker(&b""[..]);
                let biggest = h::alloc_probe::max_request();
                drop(chunker);
                biggest
            });
            match r {
                Ok(biggest) => h::emit_case(&req, &format!("max={}", biggest)),
                Err(_) => {
                    h::emit_case(&req, "panic");
                    h::emit_oracle_fail("new-chunker-panic", &req);
                }
            }
            n_alloc += 1;
        }
    }
    h::emit_stat("chunker_allocation_cases", n_alloc);
    // ... and while it scans: the buffer of the streaming chunker stays below 2 * (max chunk + REFILL_SIZE)
    // (theorem scan_capacity_bounded), whatever the length of the input and however much a read delivers
    let mut n_scan = 0;
    for &(m, len) in &[(4096usize, 3_000_000usize), (1 << 20, 5 << 20), ((1 << 20) + 7, 6 << 20), (3 << 20, 13 << 20), (4 << 20, 2 << 20)] {
        for algo in ["R", "B", "F"] {
            let fc = bitar::chunker::FilterConfig {
                filter_bits: bitar::chunker::FilterBits::from_bits(if m == 4096 { 9 } else { 30 }),
                min_chunk_size: 0,
                max_chunk_size: m,
                window_size: 16,
            };
            let cfg = match algo {
                "R" => Config::RollSum(fc),
                "B" => Config::BuzHash(fc),
                _ => Config::FixedSize(m),
            };
            let req = format!("scan-memory {} max={} len={}", algo, m, len);
            println!("TRY\t{}", req);
            let data: Vec<u8> = (0..len).map(|i| ((i as u64).wrapping_mul(2654435761) >> 13) as u8).collect();
            h::alloc_probe::reset();
            let r = tokio::time::timeout(std::time::Duration::from_secs(60), async {
                use futures_util::StreamExt;
                let mut chunker = cfg.new_chunker(&data[..]);
                let mut total = 0usize;
                let mut biggest_chunk = 0usize;
                while let Some(item) = chunker.next().await {
                    match item {
                        Ok((_, c)) => {
                            total += c.len();
                            biggest_chunk = biggest_chunk.max(c.len());
                        }
                        Err(_) => break,
                    }
                }
                (total, biggest_chunk)
            })
            .await;
            let peak = h::alloc_probe::max_request();
            match r {
                Ok((total, biggest_chunk)) => {
                    if total != len || biggest_chunk > m {
                        h::emit_oracle_fail("scan-does-not-tile-the-input-within-the-maximum", &req);
                    }
                    if peak >= 2 * (m + (1 << 20)) {
                        h::emit_oracle_fail("scan-buffer-allocation-beyond-twice-max-chunk-plus-refill", &format!("{} :: largest request {}", req, peak));
                    }
                }
                Err(_) => h::hung(&req),
            }
            n_scan += 1;
        }
    }
    h::emit_stat("scan_memory_cases", n_scan);
    // the bounded output buffer of `decompress` under arbitrary writes (hook bitar::verif_limited_output): the
    // buffer, or the index of the refused write; the independent oracle: never more than the limit is held
    #[cfg(oll3_bita_verif)]
    {
        let mut n_sink = 0;
        for i in 0..(if thorough { 3000 } else { 600 }) {
            let limit = match rng.below(5) {
                0 => rng.below(4) as usize,
                1 => rng.range(1, 40) as usize,
                2 => 4096,
                _ => rng.range(1, 300) as usize,
            };
            let k = rng.below(7) as usize;
            let mut lens: Vec<usize> = (0..k)
                .map(|_| match rng.below(6) {
                    0 => 0,
                    1 => limit,
                    2 => limit + 1,
                    3 => rng.below(limit as u64 / 2 + 2) as usize,
                    _ => rng.below(limit as u64 + 3) as usize,
                })
                .collect();
            if i % 5 == 0 && k >= 2 {
                // exactly up to the limit, then one more byte
                let used: usize = lens[..k - 1].iter().sum();
                if used <= limit {
                    lens[k - 2] += limit - used;
                    lens[k - 1] = 1;
                }
            }
            let total: usize = lens.iter().sum();
            let data = h::pattern(total);
            let mut pieces: Vec<&[u8]> = Vec::new();
            let mut o = 0;
            for &l in &lens {
                pieces.push(&data[o..o + l]);
                o += l;
            }
            let req = format!("sink {} {}", limit, if lens.is_empty() { "-".to_string() } else { h::join(&lens.iter().map(|l| l.to_string()).collect::<Vec<_>>(), ".") });
            let mut peak = 0usize;
            let mut acc = 0usize;
            for &l in &lens {
                if acc + l > limit {
                    break;
                }
                acc += l;
                peak = peak.max(acc);
            }
            let ans = match h::catch(|| bitar::verif_limited_output(limit, &pieces)) {
                Ok(Ok(buf)) => {
                    if buf.len() > limit || buf[..] != data[..buf.len()] || total > limit {
                        h::emit_oracle_fail("decompression-buffer-holds-more-than-the-declared-size", &req);
                    }
                    format!("ok {} peak={}", h::digest(&buf), peak)
                }
                Ok(Err(ix)) => {
                    if total <= limit {
                        h::emit_oracle_fail("write-within-the-declared-size-refused", &req);
                    }
                    format!("refused-at {} peak={}", ix, peak)
                }
                Err(_) => {
                    h::emit_oracle_fail("limited-output-panic", &req);
                    "panic".to_string()
                }
            };
            h::emit_case(&req, &ans);
            n_sink += 1;
        }
        h::emit_stat("limited_output_cases", n_sink);
    }
    h::emit_stat("cases", st.cases);
    for (k, v) in &st.kinds {
        h::emit_stat(&format!("kind_{}", k), *v);
    }
}
