//! C03 / C13: the real reorder planner and in-place executor on layouts of abstract chunks.

use bita_verif_harness as h;
use bitar::{ChunkIndex, CloneOutput, HashSum, ReorderOp};
use h::scripted_io::{IoOp, MemFile};
use h::Rng;

pub fn chunk_bytes(id: usize, size: usize) -> Vec<u8> {
    (0..size).map(|j| ((id * 37 + j * 11 + 5) % 256) as u8).collect()
}

/// The verified chunk (real Blake2 hash) of an abstract chunk id.
pub fn verified(id: usize, size: usize) -> bitar::VerifiedChunk {
    bitar::Chunk::from(chunk_bytes(id, size)).verify()
}

pub fn id_hash_sized(id: usize, size: usize) -> HashSum {
    verified(id, size).hash().clone()
}

static IDS: std::sync::OnceLock<std::sync::Mutex<std::collections::HashMap<Vec<u8>, usize>>> = std::sync::OnceLock::new();

fn ids() -> &'static std::sync::Mutex<std::collections::HashMap<Vec<u8>, usize>> {
    IDS.get_or_init(Default::default)
}

fn remember(id: usize, size: usize) -> HashSum {
    let hs = id_hash_sized(id, size);
    ids().lock().unwrap().insert(hs.slice().to_vec(), id);
    hs
}

pub fn hash_id(hs: &HashSum) -> usize {
    *ids().lock().unwrap().get(hs.slice()).unwrap_or(&usize::MAX)
}

pub fn tiling_index(sizes: &[usize], ids: &[usize], hash_len: usize) -> ChunkIndex {
    let mut ix = ChunkIndex::new_empty(hash_len);
    let mut off = 0u64;
    for &id in ids {
        ix.add_chunk(remember(id, sizes[id]), sizes[id], &[off]);
        off += sizes[id] as u64;
    }
    ix
}

pub fn tiling_bytes(sizes: &[usize], ids: &[usize]) -> Vec<u8> {
    ids.iter().flat_map(|&id| chunk_bytes(id, sizes[id])).collect()
}

fn dots(v: &[usize]) -> String {
    h::join(&v.iter().map(|x| x.to_string()).collect::<Vec<_>>(), ".")
}

fn show_op(op: &ReorderOp) -> String {
    match op {
        ReorderOp::Copy { hash, size, source, dest } => format!(
            "C{}.{}.{}>{}",
            hash_id(hash),
            size,
            source,
            h::join(&dest.iter().map(|d| d.to_string()).collect::<Vec<_>>(), "+")
        ),
        ReorderOp::StoreInMem { hash, size, source } => format!("S{}.{}.{}", hash_id(hash), size, source),
    }
}

pub fn show_io(log: &[IoOp]) -> String {
    // canonical: a seek followed by a read/write at that offset is implied; flushes ignored
    let v: Vec<String> = log
        .iter()
        .filter_map(|op| match op {
            IoOp::Read(o, n) => Some(format!("R{}.{}", o, n)),
            IoOp::Write(o, b) => Some(format!("W{}.{}", o, h::digest(b))),
            _ => None,
        })
        .collect();
    h::join(&v, ",")
}

pub struct Stats {
    pub cases: usize,
    pub with_store: usize,
    pub with_copy: usize,
    pub with_in_place: usize,
    pub panics: usize,
    pub wrong_output: usize,
}

/// One (sizes, O, N) case: ops (strip + reorder_ops) and execution on a logging in-memory file.
pub async fn one(sizes: &[usize], o: &[usize], n: &[usize], st: &mut Stats, exec_too: bool) {
    let hash_len = 64;
    let req_r = format!("reorder {} {} {}", dots(sizes), dots(o), dots(n));
    let (sizes_v, o_v, n_v) = (sizes.to_vec(), o.to_vec(), n.to_vec());
    let r = h::catch(move || {
        let oix = tiling_index(&sizes_v, &o_v, hash_len);
        let mut nix = tiling_index(&sizes_v, &n_v, hash_len);
        let (cnt, tot) = oix.strip_chunks_already_in_place(&mut nix);
        let ops = oix.reorder_ops(&nix);
        let s: Vec<String> = ops.iter().map(show_op).collect();
        (cnt, tot, s)
    });
    match r {
        Ok((cnt, tot, ops)) => {
            if ops.iter().any(|o| o.starts_with('S')) {
                st.with_store += 1;
            }
            if ops.iter().any(|o| o.starts_with('C')) {
                st.with_copy += 1;
            }
            if cnt > 0 {
                st.with_in_place += 1;
            }
            h::emit_case(&req_r, &format!("strip={}.{} ops={}", cnt, tot, h::join(&ops, ",")));
            // the implementation's plan, judged by the independent specification
            h::emit_case(
                &format!("plan-safe {} {} {} {}", dots(sizes), dots(o), dots(n), h::join(&ops, ",")),
                "true",
            );
        }
        Err(msg) => {
            st.panics += 1;
            h::emit_case(&req_r, "panic");
            h::emit_oracle_fail("planner-panic", &format!("{} :: {}", req_r, msg.chars().take(80).collect::<String>()));
        }
    }
    st.cases += 1;
    if !exec_too {
        return;
    }
    // execution
    let req_e = format!("exec {} {} {}", dots(sizes), dots(o), dots(n));
    let prior = tiling_bytes(sizes, o);
    let target = tiling_bytes(sizes, n);
    let oix = tiling_index(sizes, o, hash_len);
    let nix = tiling_index(sizes, n, hash_len);
    let o_tiling: &[usize] = o;
    let (sizes_v, n_v) = (sizes.to_vec(), n.to_vec());
    let max_read = [0usize, 1, 2, 5][st.cases % 4];
    let res = tokio::spawn(async move {
        let mut file = MemFile::new(prior);
        // three cases in four the file hands out short reads (at most 1, 2 or 5 bytes per call, as a real
        // file does beyond 2 MiB): a chunk read back from the output must still be complete
        file.max_read = max_read;
        let mut out = CloneOutput::new(file, nix);
        let r = out.reorder_in_place(oix).await;
        let mut left: Vec<usize> = out.chunks().keys().map(hash_id).collect();
        left.sort();
        // then feed every source chunk in source order (what seeds and the archive deliver):
        // chunks no longer wanted are ignored by `feed`
        let mut fed_err = None;
        if r.is_ok() {
            let mut seen = std::collections::HashSet::new();
            for &id in &n_v {
                if seen.insert(id) {
                    if let Err(e) = out.feed(&verified(id, sizes_v[id])).await {
                        fed_err = Some(e.to_string());
                        break;
                    }
                }
            }
        }
        (r.map_err(|e| e.to_string()), left, fed_err, out.into_inner())
    })
    .await;
    match res {
        Ok((Ok(ret), left, fed_err, file)) => {
            h::emit_case(
                &req_e,
                &format!("ret={} left={} file={} log={}", ret, dots(&left), h::digest(&file.data), show_io(&file.log)),
            );
            if let Some(e) = fed_err {
                h::emit_oracle_fail("feed-io-error", &format!("{} :: {}", req_e, e));
            }
            // C06 oracle: what is left to fetch after the reorder is absent from the prior output
            if left.iter().any(|id| o_tiling.contains(id)) {
                h::emit_oracle_fail("chunk-present-in-prior-output-still-to-be-fetched", &req_e);
            }
            // C03 oracle: reorder + feeds + resize = the source
            let mut f = file.data.clone();
            f.resize(target.len(), 0);
            if f != target {
                st.wrong_output += 1;
                h::emit_oracle_fail("in-place-result-differs-from-source", &req_e);
            }
            // C13 oracle on ALL writes (reorder and feeds): each write is a source chunk at one of its
            // offsets, no location twice, none in place, none beyond the source
            let mut written: std::collections::HashSet<u64> = Default::default();
            for op in &file.log {
                if let IoOp::Write(o, b) = op {
                    let mut off = 0u64;
                    let mut ok = false;
                    for &id in n {
                        if off == *o && chunk_bytes(id, sizes[id]) == *b {
                            ok = true;
                        }
                        off += sizes[id] as u64;
                    }
                    if !ok {
                        h::emit_oracle_fail("write-is-not-a-source-chunk-at-its-offset", &req_e);
                    }
                    if !written.insert(*o) {
                        h::emit_oracle_fail("location-written-twice", &req_e);
                    }
                    if *o as usize + b.len() > target.len() {
                        h::emit_oracle_fail("write-beyond-source-length", &req_e);
                    }
                    // in place: the prior tiling already held this very chunk at this offset
                    let mut poff = 0u64;
                    for &pid in o_tiling {
                        if poff == *o && chunk_bytes(pid, sizes[pid]) == *b {
                            h::emit_oracle_fail("write-to-a-location-already-in-place", &req_e);
                        }
                        poff += sizes[pid] as u64;
                    }
                }
            }
        }
        Ok((Err(e), _, _, _)) => {
            h::emit_case(&req_e, "io-error");
            h::emit_oracle_fail("in-place-io-error", &format!("{} :: {}", req_e, e));
        }
        Err(_) => {
            st.panics += 1;
            h::emit_case(&req_e, "panic");
            h::emit_oracle_fail("executor-panic", &req_e);
        }
    }
}

fn enumerate_tilings(max_chunks: usize, ids: usize) -> Vec<Vec<usize>> {
    let mut out = vec![vec![]];
    let mut frontier = vec![vec![]];
    for _ in 0..max_chunks {
        let mut next = Vec::new();
        for t in &frontier {
            for id in 0..ids {
                let mut t2: Vec<usize> = t.clone();
                t2.push(id);
                next.push(t2);
            }
        }
        out.extend(next.iter().cloned());
        frontier = next;
    }
    out
}

pub async fn c03(seed: u64, thorough: bool) {
    let mut rng = Rng::new(seed ^ 0xC03);
    let mut st = Stats { cases: 0, with_store: 0, with_copy: 0, with_in_place: 0, panics: 0, wrong_output: 0 };
    // (a) exhaustive small scope: all pairs of tilings of <= K chunks over `ids` identities,
    //     for a few size tables with sizes in {1,2,3}
    let (k, ids) = if thorough { (4usize, 4usize) } else { (3usize, 3usize) };
    let size_tables: Vec<Vec<usize>> = if thorough {
        vec![vec![1, 1, 1, 1], vec![1, 2, 3, 2], vec![3, 1, 2, 1], vec![2, 2, 1, 3], vec![2, 3, 3, 1]]
    } else {
        vec![vec![1, 1, 1], vec![1, 2, 3], vec![3, 1, 2], vec![2, 2, 1], vec![2, 3, 1], vec![3, 3, 2]]
    };
    let tilings = enumerate_tilings(k, ids);
    let mut n_exh = 0usize;
    for sizes in &size_tables {
        for o in &tilings {
            for n in &tilings {
                if n.is_empty() {
                    continue;
                }
                one(sizes, o, n, &mut st, true).await;
                n_exh += 1;
            }
        }
    }
    h::emit_stat("exhaustive_pairs", n_exh);
    h::emit_stat("exhaustive_max_chunks", k);
    // (b) random larger layouts: moves, duplicates, junk, overlaps and cycles
    let n_rand = if thorough { 30000 } else { 2500 };
    for _ in 0..n_rand {
        let ids = rng.range(2, 24) as usize;
        let maxs = *rng.pick(&[1u64, 2, 3, 5, 9]);
        let sizes: Vec<usize> = (0..ids).map(|_| rng.range(1, maxs) as usize).collect();
        let ln = rng.range(1, 40) as usize;
        let n: Vec<usize> = (0..ln).map(|_| rng.below(ids as u64) as usize).collect();
        // prior: a perturbation of the target (rotate / swap / drop / insert / duplicate) or random
        let mut o = n.clone();
        match rng.below(6) {
            0 => o = (0..rng.range(0, 40) as usize).map(|_| rng.below(ids as u64) as usize).collect(),
            1 => {
                let r = rng.below(o.len() as u64) as usize;
                o.rotate_left(r);
            }
            2 => o.reverse(),
            _ => {}
        }
        for _ in 0..rng.below(6) {
            if o.is_empty() {
                break;
            }
            let i = rng.below(o.len() as u64) as usize;
            match rng.below(4) {
                0 => {
                    let j = rng.below(o.len() as u64) as usize;
                    o.swap(i, j);
                }
                1 => {
                    o.remove(i);
                }
                2 => o.insert(i, rng.below(ids as u64) as usize),
                _ => {
                    let v = o[i];
                    o.push(v);
                }
            }
        }
        one(&sizes, &o, &n, &mut st, true).await;
    }
    h::emit_stat("cases", st.cases);
    h::emit_stat("cases_with_store_in_mem", st.with_store);
    h::emit_stat("cases_with_copy", st.with_copy);
    h::emit_stat("cases_with_chunks_in_place", st.with_in_place);
    h::emit_stat("panics", st.panics);
    h::emit_stat("wrong_outputs", st.wrong_output);
}
