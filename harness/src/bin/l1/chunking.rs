//! C09 / C10: the real streaming chunker under scripted read delivery.

use std::pin::Pin;
use std::task::{Context, Poll};

use bita_verif_harness as h;
use bitar::chunker::{Config, FilterBits, FilterConfig};
use futures_util::StreamExt;
use h::Rng;
use tokio::io::{AsyncRead, ReadBuf};

#[derive(Clone, Debug)]
pub enum Cfg {
    Roll(u32, usize, usize, usize),
    Buz(u32, usize, usize, usize),
    Fixed(usize),
}

impl Cfg {
    pub fn token(&self) -> String {
        match self {
            Cfg::Roll(b, mn, mx, w) => format!("R:{}:{}:{}:{}", b, mn, mx, w),
            Cfg::Buz(b, mn, mx, w) => format!("B:{}:{}:{}:{}", b, mn, mx, w),
            Cfg::Fixed(n) => format!("F:{}", n),
        }
    }
    pub fn config(&self) -> Config {
        let fc = |b: u32, mn: usize, mx: usize, w: usize| FilterConfig {
            filter_bits: FilterBits::from_bits(b),
            min_chunk_size: mn,
            max_chunk_size: mx,
            window_size: w,
        };
        match *self {
            Cfg::Roll(b, mn, mx, w) => Config::RollSum(fc(b, mn, mx, w)),
            Cfg::Buz(b, mn, mx, w) => Config::BuzHash(fc(b, mn, mx, w)),
            Cfg::Fixed(n) => Config::FixedSize(n),
        }
    }
    pub fn window(&self) -> usize {
        match *self {
            Cfg::Roll(_, _, _, w) | Cfg::Buz(_, _, _, w) => w,
            Cfg::Fixed(_) => 0,
        }
    }
}

/// Data described by segments, so that MiB-sized inputs have short request lines.
#[derive(Clone, Debug)]
pub enum Seg {
    Rand(u64, usize),
    Const(u8, usize),
    Lit(Vec<u8>),
}

pub fn lcg_bytes(seed: u64, len: usize) -> Vec<u8> {
    let mut x = seed;
    let mut v = Vec::with_capacity(len);
    for _ in 0..len {
        x = x
            .wrapping_mul(6364136223846793005)
            .wrapping_add(1442695040888963407);
        v.push((x >> 56) as u8);
    }
    v
}

pub fn segs_bytes(segs: &[Seg]) -> Vec<u8> {
    let mut v = Vec::new();
    for s in segs {
        match s {
            Seg::Rand(sd, n) => v.extend(lcg_bytes(*sd, *n)),
            Seg::Const(b, n) => v.extend(std::iter::repeat(*b).take(*n)),
            Seg::Lit(b) => v.extend_from_slice(b),
        }
    }
    v
}

pub fn segs_token(segs: &[Seg]) -> String {
    let parts: Vec<String> = segs
        .iter()
        .filter_map(|s| match s {
            Seg::Rand(sd, n) if *n > 0 => Some(format!("r{}:{}", sd, n)),
            Seg::Const(b, n) if *n > 0 => Some(format!("c{}:{}", b, n)),
            Seg::Lit(b) if !b.is_empty() => Some(format!("h{}", h::hex(b))),
            _ => None,
        })
        .collect();
    h::join(&parts, ";")
}

#[derive(Clone, Copy, Debug)]
pub enum Rd {
    Pending,
    Bytes(usize),
}

/// AsyncRead that follows a script and records what it actually delivered.
pub struct ScriptedSource {
    data: Vec<u8>,
    pos: usize,
    script: std::collections::VecDeque<Rd>,
    default_read: usize,
    pub delivered: Vec<String>,
}

impl ScriptedSource {
    pub fn new(data: Vec<u8>, script: Vec<Rd>, default_read: usize) -> Self {
        Self { data, pos: 0, script: script.into(), default_read, delivered: Vec::new() }
    }
}

impl AsyncRead for ScriptedSource {
    fn poll_read(mut self: Pin<&mut Self>, cx: &mut Context<'_>, buf: &mut ReadBuf<'_>) -> Poll<std::io::Result<()>> {
        let ev = self.script.pop_front().unwrap_or(Rd::Bytes(self.default_read));
        match ev {
            Rd::Pending => {
                self.delivered.push("p".into());
                cx.waker().wake_by_ref();
                Poll::Pending
            }
            Rd::Bytes(n) => {
                let k = n.max(1).min(buf.remaining()).min(self.data.len() - self.pos);
                let p = self.pos;
                buf.put_slice(&self.data[p..p + k]);
                self.pos += k;
                self.delivered.push(format!("b{}", k.max(1)));
                Poll::Ready(Ok(()))
            }
        }
    }
}

/// Run the real chunker; returns ((offset,len) list, delivered script tokens, oracle problems).
pub async fn real_chunks(cfg: &Cfg, data: &[u8], script: Vec<Rd>, default_read: usize) -> (Vec<(u64, usize)>, Vec<String>, Vec<&'static str>) {
    let mut src = ScriptedSource::new(data.to_vec(), script, default_read);
    let config = cfg.config();
    let mut out = Vec::new();
    let mut problems = Vec::new();
    {
        let mut stream = config.new_chunker(&mut src);
        let mut expect_off = 0u64;
        let limit = data.len() + 2;
        while let Some(r) = stream.next().await {
            let (off, chunk) = r.unwrap();
            if off != expect_off {
                problems.push("offsets-not-contiguous");
            }
            let o = off as usize;
            if o + chunk.len() > data.len() || chunk.data() != &data[o..o + chunk.len()] {
                problems.push("chunk-bytes-differ-from-input");
            }
            if chunk.len() == 0 {
                problems.push("empty-chunk");
            }
            expect_off = off + chunk.len() as u64;
            out.push((off, chunk.len()));
            if out.len() > limit {
                problems.push("too-many-chunks");
                break;
            }
        }
        if expect_off != data.len() as u64 {
            problems.push("chunks-do-not-cover-input");
        }
    }
    (out, src.delivered, problems)
}

pub fn chunks_token(cs: &[(u64, usize)]) -> String {
    h::join(&cs.iter().map(|(o, l)| format!("{}:{}", o, l)).collect::<Vec<_>>(), ",")
}

fn bounds_problem(cfg: &Cfg, cs: &[(u64, usize)]) -> Option<&'static str> {
    let n = cs.len();
    for (i, (_, l)) in cs.iter().enumerate() {
        if i + 1 == n {
            break;
        }
        match *cfg {
            Cfg::Fixed(k) => {
                if *l != k {
                    return Some("fixed-size-violated");
                }
            }
            Cfg::Roll(_, mn, mx, _) | Cfg::Buz(_, mn, mx, _) => {
                if *l < mn.max(1) || *l > mx {
                    return Some("min-max-violated");
                }
            }
        }
    }
    None
}

/// The bup/rsync rolling checksum of every window, from its definition and independent of bitar's
/// code: the stream is preceded by zero bytes; for the window ending at `e` (exclusive)
/// s1 = 31w + sum(b_j), s2 = 31w(w-1) + sum((e-j) b_j) over the window (the newest byte has weight 1,
/// the oldest weight w), digest = s1 << 16 | s2 & 0xffff, all modulo 2^32.  Prefix sums make it
/// linear: sum((e-j) b_j) = e (A[e]-A[s]) - (B[e]-B[s]) with A = prefix sums of b_j, B of j b_j.
struct NaiveRollsum {
    a: Vec<u32>,
    b: Vec<u32>,
    w: usize,
}

impl NaiveRollsum {
    fn new(data: &[u8], w: usize) -> Self {
        let mut a = Vec::with_capacity(data.len() + 1);
        let mut b = Vec::with_capacity(data.len() + 1);
        let (mut sa, mut sb) = (0u32, 0u32);
        a.push(0);
        b.push(0);
        for (j, &x) in data.iter().enumerate() {
            sa = sa.wrapping_add(x as u32);
            sb = sb.wrapping_add((j as u32).wrapping_mul(x as u32));
            a.push(sa);
            b.push(sb);
        }
        Self { a, b, w }
    }
    fn at(&self, e: usize) -> u32 {
        let w = self.w as u32;
        let s = e.saturating_sub(self.w);
        let sum = self.a[e].wrapping_sub(self.a[s]);
        let weighted = (e as u32).wrapping_mul(sum).wrapping_sub(self.b[e].wrapping_sub(self.b[s]));
        let s1 = 31u32.wrapping_mul(w).wrapping_add(sum);
        let s2 = 31u32.wrapping_mul(w).wrapping_mul(w.wrapping_sub(1)).wrapping_add(weighted);
        (s1 << 16) | (s2 & 0xffff)
    }
}

/// C09's rule judged on the implementation's chunks of a RollSum configuration, without bitar and
/// without the model: every chunk but the last ends at the first length >= max(min, 1) whose
/// trailing-window checksum has all filter bits set, or else at the maximum.
fn rollsum_rule_problem(cfg: &Cfg, data: &[u8], cs: &[(u64, usize)]) -> Option<&'static str> {
    let (bits, mn, mx, w) = match *cfg {
        Cfg::Roll(b, mn, mx, w) => (b, mn, mx, w),
        _ => return None,
    };
    if bits == 0 || bits > 31 {
        return None;
    }
    let naive = NaiveRollsum::new(data, w);
    let mask: u32 = !0u32 >> (32 - bits);
    let hit = |end: usize| {
        let v = naive.at(end);
        v | mask == v
    };
    for (i, &(off, len)) in cs.iter().enumerate() {
        let off = off as usize;
        let last = i + 1 == cs.len();
        let lo = mn.max(1);
        // no earlier admissible length is a boundary
        for l in lo..len.min(mx) {
            if hit(off + l) {
                return Some("boundary-missed-where-the-window-checksum-has-all-filter-bits-set");
            }
        }
        if !last && len < mx && !(len >= lo && hit(off + len)) {
            return Some("boundary-placed-where-the-window-checksum-lacks-filter-bits");
        }
    }
    None
}

fn rand_script(rng: &mut Rng, len: usize) -> (Vec<Rd>, usize) {
    let style = rng.below(7);
    let default_read = match style {
        0 => 1,
        1 => 2,
        2 => 7,
        3 => 64 * 1024,
        4 => (1 << 20) + 1,
        5 => (1 << 20) - 1,
        _ => usize::MAX / 2,
    };
    let mut v = Vec::new();
    let k = rng.below(12) as usize;
    for _ in 0..k {
        if rng.chance(1, 3) {
            v.push(Rd::Pending);
        } else {
            v.push(Rd::Bytes(rng.range(1, (len as u64).max(2)) as usize));
        }
    }
    (v, default_read)
}

async fn one_case(cfg: &Cfg, segs: &[Seg], script: Vec<Rd>, default_read: usize, stats: &mut Stats, with_spec: bool) {
    let data = segs_bytes(segs);
    let dtok = segs_token(segs);
    // a chunker that panics on an input is reported on that input (and the suite goes on)
    let script_tok: Vec<String> = script.iter().map(|e| match e { Rd::Pending => "p".to_string(), Rd::Bytes(n) => format!("b{}", n) }).collect();
    let run = {
        use futures_util::FutureExt;
        std::panic::AssertUnwindSafe(real_chunks(cfg, &data, script, default_read)).catch_unwind().await
    };
    let (cs, delivered, mut problems) = match run {
        Ok(v) => v,
        Err(_) => {
            h::emit_oracle_fail("chunker-panic", &format!("chunk {} {} script={} then reads of {}", cfg.token(), dtok, h::join(&script_tok, ","), default_read));
            return;
        }
    };
    let req = format!("chunk {} {} {}", cfg.token(), dtok, h::join(&delivered, ","));
    let ans = chunks_token(&cs);
    h::emit_case(&req, &ans);
    if with_spec {
        h::emit_case(&format!("chunk-spec {} {}", cfg.token(), dtok), &ans);
    }
    if let Some(p) = bounds_problem(cfg, &cs) {
        problems.push(p);
    }
    if let Some(p) = rollsum_rule_problem(cfg, &data, &cs) {
        problems.push(p);
    }
    for p in problems {
        h::emit_oracle_fail(p, &req);
    }
    stats.cases += 1;
    stats.chunks += cs.len();
    if cs.len() > 1 {
        stats.multi += 1;
    }
    match cfg {
        Cfg::Roll(_, _, mx, _) | Cfg::Buz(_, _, mx, _) => {
            if cs.iter().rev().skip(1).any(|c| c.1 == *mx) {
                stats.cut_at_max += 1;
            }
            if cs.iter().rev().skip(1).any(|c| c.1 < *mx) {
                stats.cut_by_hash += 1;
            }
        }
        _ => {}
    }
    if delivered.iter().filter(|t| t.starts_with('b')).count() > 3 {
        stats.fragmented += 1;
    }
    if cs.iter().any(|c| c.1 > (1 << 20)) {
        stats.chunk_over_refill += 1;
    }
}

#[derive(Default)]
struct Stats {
    huge_chunks: usize,
    wide_filter: usize,
    cases: usize,
    chunks: usize,
    multi: usize,
    cut_at_max: usize,
    cut_by_hash: usize,
    fragmented: usize,
    chunk_over_refill: usize,
}

impl Stats {
    fn emit(&self) {
        h::emit_stat("cases", self.cases);
        h::emit_stat("chunks_total", self.chunks);
        h::emit_stat("cases_with_several_chunks", self.multi);
        h::emit_stat("cases_with_cut_at_max", self.cut_at_max);
        h::emit_stat("cases_with_cut_by_hash", self.cut_by_hash);
        h::emit_stat("cases_with_more_than_3_reads", self.fragmented);
        h::emit_stat("cases_with_chunk_larger_than_refill_buffer", self.chunk_over_refill);
        h::emit_stat("cases_with_more_than_16_filter_bits_on_megabytes", self.wide_filter);
        h::emit_stat("cases_with_chunks_of_tens_of_mib", self.huge_chunks);
    }
}

fn small_configs() -> Vec<Cfg> {
    let mut v = Vec::new();
    for w in 1..=3usize {
        for (mn, mx) in [(0usize, 4usize), (1, 5), (2, 6), (3, 3), (4, 7), (5, 8), (0, 3)] {
            if w > mx || mn > mx {
                continue;
            }
            for b in 1..=2u32 {
                v.push(Cfg::Roll(b, mn, mx, w));
                v.push(Cfg::Buz(b, mn, mx, w));
            }
        }
    }
    // RollSum needs no warm-up: the reader accepts a window larger than the maximum chunk size
    for (mn, mx, w) in [(0usize, 2usize, 3usize), (1, 2, 4), (0, 3, 8), (2, 2, 5), (0, 1, 3)] {
        for b in 1..=2u32 {
            v.push(Cfg::Roll(b, mn, mx, w));
        }
    }
    v.push(Cfg::Fixed(1));
    v.push(Cfg::Fixed(3));
    v.push(Cfg::Fixed(4));
    v
}

pub fn rand_config(rng: &mut Rng) -> Cfg {
    if rng.chance(1, 10) {
        return Cfg::Fixed(rng.range(1, 300) as usize);
    }
    let w = *rng.pick(&[1usize, 2, 3, 4, 8, 16, 31, 64, 100, 256]);
    let mn = match rng.below(5) {
        0 => 0,
        1 => rng.below(w as u64 + 1) as usize,
        2 => w,
        3 => w + 1 + rng.below(3) as usize,
        _ => w + rng.range(2, 300) as usize,
    };
    let mx = mn.max(w) + match rng.below(4) {
        0 => 0,
        1 => rng.range(1, 8) as usize,
        _ => rng.range(8, 600) as usize,
    };
    let b = rng.range(1, 9) as u32;
    if rng.chance(1, 2) {
        if rng.chance(1, 6) {
            // window larger than the maximum chunk size (accepted for RollSum only)
            let mx2 = rng.range(1, w as u64 + 1) as usize;
            return Cfg::Roll(b, rng.below(mx2 as u64 + 1) as usize, mx2, w + rng.range(1, 40) as usize);
        }
        Cfg::Roll(b, mn, mx, w)
    } else {
        Cfg::Buz(b, mn, mx, w)
    }
}

pub fn rand_segs(rng: &mut Rng, target: usize, window: usize) -> Vec<Seg> {
    let mut v = Vec::new();
    let mut len = 0usize;
    while len < target {
        let left = target - len;
        let n = (rng.range(1, (left as u64).min(400).max(1)) as usize).min(left);
        let s = match rng.below(8) {
            0 | 1 | 2 => Seg::Rand(rng.next() >> 20, n),
            3 => Seg::Const(0, n),
            4 => Seg::Const(rng.below(256) as u8, n),
            5 => Seg::Const(0, (window + rng.below(3) as usize).saturating_sub(1).max(1).min(left)),
            6 => Seg::Const(*rng.pick(&[0u8, 1, 255]), (window + 1).min(left)),
            _ => Seg::Lit((0..n.min(24)).map(|_| rng.below(3) as u8).collect()),
        };
        len += match &s {
            Seg::Rand(_, n) | Seg::Const(_, n) => *n,
            Seg::Lit(b) => b.len(),
        };
        v.push(s);
    }
    v
}

pub async fn c09(seed: u64, thorough: bool) {
    let mut rng = Rng::new(seed ^ 0xC09);
    let mut st = Stats::default();
    // (a) exhaustive: all strings up to length L over {0,1,2} x small configs, two deliveries each;
    //     for length <= 6 additionally every fragmentation (composition) of the reads
    let max_len = if thorough { 9 } else { 7 };
    let cfgs = small_configs();
    for len in 0..=max_len {
        let total = 3usize.pow(len as u32);
        for code in 0..total {
            let mut c = code;
            let data: Vec<u8> = (0..len).map(|_| { let d = (c % 3) as u8; c /= 3; d }).collect();
            let segs = vec![Seg::Lit(data.clone())];
            for (ci, cfg) in cfgs.iter().enumerate() {
                if !thorough && (code + ci) % 3 != 0 && len > 5 {
                    continue;
                }
                one_case(cfg, &segs, vec![], usize::MAX / 2, &mut st, true).await;
                one_case(cfg, &segs, vec![Rd::Pending], 1, &mut st, true).await; // judged by the delivery-free spec too
                if len >= 2 && len <= 6 && (thorough || (code + ci) % 5 == 0) {
                    // every composition of len into read sizes
                    for comp in 0..(1u32 << (len - 1)) {
                        let mut script = Vec::new();
                        let mut run = 1usize;
                        for i in 0..len - 1 {
                            if comp >> i & 1 == 1 {
                                script.push(Rd::Bytes(run));
                                if (comp + i as u32) % 3 == 0 {
                                    script.push(Rd::Pending);
                                }
                                run = 1;
                            } else {
                                run += 1;
                            }
                        }
                        script.push(Rd::Bytes(run));
                        one_case(cfg, &segs, script, 1, &mut st, false).await;
                    }
                }
            }
        }
    }
    h::emit_stat("exhaustive_max_len", max_len);
    // (b) random medium inputs with runs, all kinds of configs and deliveries
    let n_rand = if thorough { 20000 } else { 1500 };
    for _ in 0..n_rand {
        let cfg = rand_config(&mut rng);
        let target = match rng.below(6) {
            0 => rng.below(8) as usize,
            1 => rng.below(cfg.window() as u64 + 3) as usize,
            _ => rng.range(1, 6000) as usize,
        };
        let segs = rand_segs(&mut rng, target, cfg.window().max(1));
        let (script, dr) = rand_script(&mut rng, target);
        one_case(&cfg, &segs, script, dr, &mut st, true).await;
    }
    // (c0) wide filters: more than 16 filter bits with windows large enough for the second accumulator to
    // exceed 16 bits, on enough random data for hash boundaries to occur
    let n_wide = if thorough { 6 } else { 2 };
    for i in 0..n_wide {
        let bits = 17 + (i as u32 % 3);
        let w = [32usize, 64, 48][i % 3];
        let cfg = Cfg::Roll(bits, if i % 2 == 0 { 0 } else { 1000 }, 4 << 20, w);
        let total = (1usize << 20) + 300_000 * (i + 1);
        let segs = vec![Seg::Rand(4242 + i as u64, total)];
        one_case(&cfg, &segs, vec![Rd::Bytes(70_000), Rd::Pending], usize::MAX / 2, &mut st, false).await;
        st.wide_filter += 1;
    }
    // (c1) very large chunks (tens of MiB: far beyond any internal buffer size), judged by the oracles alone:
    // tiling, fixed size / cut at the maximum, and for RollSum the rule itself
    let huge: Vec<(Cfg, Vec<Seg>)> = if thorough {
        vec![
            (Cfg::Fixed(70 << 20), vec![Seg::Rand(31, 150 << 20)]),
            (Cfg::Roll(20, 0, 80 << 20, 64), vec![Seg::Const(0, 100 << 20)]),
            (Cfg::Buz(20, 0, 80 << 20, 64), vec![Seg::Const(0, 100 << 20)]),
        ]
    } else {
        vec![(Cfg::Fixed(70 << 20), vec![Seg::Rand(31, 150 << 20)])]
    };
    for (cfg, segs) in huge {
        let data = segs_bytes(&segs);
        let desc = format!("chunk {} {} (oracles only)", cfg.token(), segs_token(&segs));
        println!("TRY\t{}", desc);
        let (cs, _delivered, mut problems) = real_chunks(&cfg, &data, vec![], usize::MAX / 2).await;
        if let Some(p) = bounds_problem(&cfg, &cs) {
            problems.push(p);
        }
        if let Some(p) = rollsum_rule_problem(&cfg, &data, &cs) {
            problems.push(p);
        }
        // tiling, independently of real_chunks' own checks
        let mut off = 0u64;
        for (o, l) in &cs {
            if *o != off || *l == 0 {
                problems.push("chunks-do-not-tile-the-stream");
                break;
            }
            off += *l as u64;
        }
        if off != data.len() as u64 {
            problems.push("chunks-do-not-tile-the-stream");
        }
        let mx = match cfg {
            Cfg::Fixed(n) => n,
            Cfg::Roll(_, _, mx, _) | Cfg::Buz(_, _, mx, _) => mx,
        };
        // constant data under a 20-bit filter has no hash boundary: every chunk but the last is cut at the maximum
        if cs.iter().rev().skip(1).any(|c| c.1 != mx) {
            problems.push("chunk-not-cut-at-the-maximum-on-boundary-free-data");
        }
        for p in problems {
            h::emit_oracle_fail(p, &desc);
        }
        st.huge_chunks += 1;
    }
    // (c) large: chunks larger than the 1 MiB refill buffer, reads around the buffer size
    let n_large = if thorough { 6 } else { 1 };
    for i in 0..n_large {
        let w = 8usize;
        let mx = (1usize << 20) + 4096 * (i + 1) + 17;
        let cfg = if i % 2 == 0 { Cfg::Roll(22, 0, mx, w) } else { Cfg::Buz(22, 3000, mx, w) };
        let total = mx * 2 + 12345;
        let segs = vec![
            Seg::Rand(77 + i as u64, total / 3),
            Seg::Const(0, 70000),
            Seg::Rand(78 + i as u64, total - total / 3 - 70000),
        ];
        let dr = [(1usize << 20) + 1, 65536, (1 << 20) - 1, usize::MAX / 2, 4096, 1 << 20][i % 6];
        // (the pure spec recomputes every window from scratch: quadratic, so not asked at this size)
        one_case(&cfg, &segs, vec![Rd::Bytes(5), Rd::Pending], dr, &mut st, false).await;
    }
    st.emit();
}

/// C10: P1+S and P2+S; after a common boundary at least one window into S, all later chunks agree.
pub async fn c10(seed: u64, thorough: bool) {
    let mut rng = Rng::new(seed ^ 0xC10);
    let mut st = Stats::default();
    let n = if thorough { 40000 } else { 3000 };
    let mut n_resync = 0usize;
    let mut n_common = 0usize;
    for case in 0..n {
        let cfg = match case % 3 {
            // small parameters: many boundaries
            0 => {
                let w = rng.range(1, 6) as usize;
                let mn = rng.below(8) as usize;
                let mx = mn.max(w) + rng.range(1, 12) as usize;
                if rng.chance(1, 2) { Cfg::Buz(rng.range(1, 3) as u32, mn, mx, w) } else { Cfg::Roll(rng.range(1, 3) as u32, mn, mx, w) }
            }
            _ => rand_config(&mut rng),
        };
        let w = cfg.window().max(1);
        let slen = rng.range(1, 1500) as usize;
        // the F5-shaped family: S begins with `w` non-zero bytes and then at least w zeros
        let s_segs = if case % 4 == 0 {
            let mut v = vec![Seg::Lit((0..w).map(|_| rng.range(1, 255) as u8).collect()), Seg::Const(0, w + rng.below(4) as usize)];
            v.extend(rand_segs(&mut rng, slen, w));
            v
        } else {
            rand_segs(&mut rng, slen, w)
        };
        let n1 = rng.range(1, 400) as usize;
        let p1 = if rng.chance(1, 3) { vec![] } else { rand_segs(&mut rng, n1, w) };
        let n2 = rng.range(1, 400) as usize;
        let p2 = if rng.chance(1, 6) { vec![] } else { rand_segs(&mut rng, n2, w) };
        let (mut a, mut b) = (p1.clone(), p2.clone());
        a.extend(s_segs.clone());
        b.extend(s_segs.clone());
        let (da, db) = (segs_bytes(&a), segs_bytes(&b));
        let (l1, l2) = (segs_bytes(&p1).len(), segs_bytes(&p2).len());
        if let Cfg::Fixed(k) = cfg {
            if l1 % k != l2 % k {
                continue;
            }
        }
        // half of the pairs are delivered in pieces (each stream in its own pieces, with pending reads): the
        // theorem is about the streaming chunker under any two deliveries
        let (sa, dra) = if case % 2 == 1 { rand_script(&mut rng, da.len()) } else { (vec![], usize::MAX / 2) };
        let (sb, drb) = if case % 2 == 1 { rand_script(&mut rng, db.len()) } else { (vec![], usize::MAX / 2) };
        let (ca, dela, _) = real_chunks(&cfg, &da, sa, dra).await;
        let (cb, delb, _) = real_chunks(&cfg, &db, sb, drb).await;
        let ra = format!("chunk {} {} {}", cfg.token(), segs_token(&a), h::join(&dela, ","));
        let rb = format!("chunk {} {} {}", cfg.token(), segs_token(&b), h::join(&delb, ","));
        h::emit_case(&ra, &chunks_token(&ca));
        h::emit_case(&rb, &chunks_token(&cb));
        st.cases += 2;
        // oracle: ends relative to S
        let ends_a: Vec<usize> = ca.iter().map(|(o, l)| *o as usize + l).filter(|e| *e >= l1 + w).map(|e| e - l1).collect();
        let ends_b: Vec<usize> = cb.iter().map(|(o, l)| *o as usize + l).filter(|e| *e >= l2 + w).map(|e| e - l2).collect();
        let slen_total = da.len() - l1;
        if let Some(first) = ends_a.iter().find(|e| ends_b.contains(e) && **e < slen_total) {
            n_common += 1;
            let ta: Vec<usize> = ends_a.iter().cloned().filter(|e| e >= first).collect();
            let tb: Vec<usize> = ends_b.iter().cloned().filter(|e| e >= first).collect();
            if ta != tb {
                h::emit_oracle_fail("no-resync-after-common-boundary", &format!("{} || {}", ra, rb));
            } else if ta.len() > 1 {
                n_resync += 1;
            }
        }
    }
    // windows of several KiB (larger than the maximum chunk size, which RollSum permits): the resync oracle
    // and the independent rule oracle on the implementation alone (the list-based model would take
    // window x length steps here; the hash-level suite ties these windows to the model)
    let n_big = if thorough { 8 } else { 2 };
    let mut n_big_common = 0usize;
    for i in 0..n_big {
        let w = [8192usize, 16384, 32768, 6000][i % 4];
        let cfg = Cfg::Roll(9 + (i as u32 % 3), 64, 4096, w);
        let s_data = lcg_bytes(500 + i as u64, 140_000);
        let p1 = lcg_bytes(700 + i as u64, 3000 + 517 * i);
        let p2 = if i % 2 == 0 { vec![] } else { lcg_bytes(900 + i as u64, 1234) };
        let (mut da, mut db) = (p1.clone(), p2.clone());
        da.extend_from_slice(&s_data);
        db.extend_from_slice(&s_data);
        let desc = format!("chunk-pair {} S=r{}:{} P1=r{}:{} P2={}", cfg.token(), 500 + i, s_data.len(), 700 + i, p1.len(), p2.len());
        println!("TRY\t{}", desc);
        let (ca, _, mut pa) = real_chunks(&cfg, &da, vec![], usize::MAX / 2).await;
        let (cb, _, pb) = real_chunks(&cfg, &db, vec![], usize::MAX / 2).await;
        pa.extend(pb);
        if let Some(p) = rollsum_rule_problem(&cfg, &da, &ca) {
            pa.push(p);
        }
        for p in pa {
            h::emit_oracle_fail(p, &desc);
        }
        let (l1, l2) = (p1.len(), p2.len());
        let ends_a: Vec<usize> = ca.iter().map(|(o, l)| *o as usize + l).filter(|e| *e >= l1 + w).map(|e| e - l1).collect();
        let ends_b: Vec<usize> = cb.iter().map(|(o, l)| *o as usize + l).filter(|e| *e >= l2 + w).map(|e| e - l2).collect();
        if let Some(first) = ends_a.iter().find(|e| ends_b.contains(e) && **e < s_data.len()) {
            n_big_common += 1;
            let ta: Vec<usize> = ends_a.iter().cloned().filter(|e| e >= first).collect();
            let tb: Vec<usize> = ends_b.iter().cloned().filter(|e| e >= first).collect();
            if ta != tb {
                h::emit_oracle_fail("no-resync-after-common-boundary", &desc);
            }
        }
    }
    h::emit_stat("large_window_pairs", n_big);
    h::emit_stat("large_window_pairs_with_common_boundary", n_big_common);
    st.emit();
    h::emit_stat("pairs_with_common_boundary", n_common);
    h::emit_stat("pairs_with_nonempty_identical_continuation", n_resync);
}


/// Hash level (C09 / C10): the rolling hashes themselves, all 32 bits of every sum, driven as the
/// chunker drives them, for windows from 1 to several thousand bytes (digest bits beyond 16 matter only
/// for wide filters; large windows make the second RollSum accumulator exceed 16 bits).
#[cfg(oll3_bita_verif)]
pub async fn hash_suite(seed: u64, thorough: bool) {
    use bitar::verif_rolling_hash::{BuzHash, RollSum, RollingHash};
    let mut rng = Rng::new(seed ^ 0x4A54);
    let n = if thorough { 20000 } else { 2500 };
    let mut wide = 0usize;
    for i in 0..n {
        let w = if i < (if thorough { 12 } else { 4 }) {
            // windows of several KiB: the true second accumulator exceeds 32 bits while the window fills
            [8192usize, 16384, 6000, 40000][i % 4]
        } else { match rng.below(6) {
            0 => rng.range(1, 4) as usize,
            1 => *rng.pick(&[8usize, 16, 31, 32, 33, 64]),
            2 => rng.range(20, 300) as usize,
            3 => *rng.pick(&[1000usize, 4096, 5000]),
            _ => rng.range(1, 80) as usize,
        } };
        let roll = i % 2 == 0 || w >= 6000;
        let target = if w >= 6000 { w * 2 + 1000 } else { match rng.below(5) {
            0 => rng.below(w as u64 + 3) as usize,
            1 => w * 2 + rng.below(50) as usize,
            _ => rng.range(1, 3000) as usize,
        } };
        let segs = if w >= 6000 { vec![Seg::Rand(i as u64 + 9, target)] } else { rand_segs(&mut rng, target, w.max(1)) };
        let data = segs_bytes(&segs);
        let req = format!("hash {} {} {}", if roll { "R" } else { "B" }, w, if data.is_empty() { "-".to_string() } else { segs_token(&segs) });
        println!("TRY\t{}", req);
        let mut sums: Vec<u32> = Vec::with_capacity(data.len());
        let r = h::catch(|| {
            if roll {
                let mut hs = RollSum::new(w);
                for &b in &data {
                    if hs.init_done() { hs.input(b) } else { hs.init(b) }
                    sums.push(hs.sum());
                }
            } else {
                let mut hs = BuzHash::new(w);
                for &b in &data {
                    if hs.init_done() { hs.input(b) } else { hs.init(b) }
                    sums.push(hs.sum());
                }
            }
        });
        if r.is_err() {
            h::emit_case(&req, "panic");
            continue;
        }
        if sums.iter().any(|s| s >> 16 != 0) {
            wide += 1;
        }
        let mut le = Vec::with_capacity(sums.len() * 4);
        for s_ in &sums {
            le.extend_from_slice(&s_.to_le_bytes());
        }
        let shown = if sums.len() <= 24 { h::join(&sums.iter().map(|x| x.to_string()).collect::<Vec<_>>(), ",") } else { "-".into() };
        h::emit_case(&req, &format!("sums={} last={} all={}", h::digest(&le), sums.last().copied().unwrap_or(0), shown));
    }
    h::emit_stat("hash_traces", n);
    h::emit_stat("traces_with_sum_bits_above_16", wide);
}

#[cfg(not(oll3_bita_verif))]
pub async fn hash_suite(_seed: u64, _thorough: bool) {
    eprintln!("the hash suite needs the harness built with --cfg oll3_bita_verif");
    std::process::exit(2);
}
