//! C09 / C10: the real streaming chunker under scripted read delivery.

use std::pin::Pin;
use std::task::{Context, Poll};

use bita_verif_harness as h;
use bitar::chunker::{Config, FilterBits, FilterConfig};
use futures_util::StreamExt;
use h::Rng;
use tokio::io::{AsyncRead, ReadBuf};

#[derive(Clone, Debug)]
pub enum Cfg {
    Roll(u32, usize, usize, usize),
    Buz(u32, usize, usize, usize),
    Fixed(usize),
}

impl Cfg {
    pub fn token(&self) -> String {
        match self {
            Cfg::Roll(b, mn, mx, w) => format!("R:{}:{}:{}:{}", b, mn, mx, w),
            Cfg::Buz(b, mn, mx, w) => format!("B:{}:{}:{}:{}", b, mn, mx, w),
            Cfg::Fixed(n) => format!("F:{}", n),
        }
    }
    pub fn config(&self) -> Config {
        let fc = |b: u32, mn: usize, mx: usize, w: usize| FilterConfig {
            filter_bits: FilterBits::from_bits(b),
            min_chunk_size: mn,
            max_chunk_size: mx,
            window_size: w,
        };
        match *self {
            Cfg::Roll(b, mn, mx, w) => Config::RollSum(fc(b, mn, mx, w)),
            Cfg::Buz(b, mn, mx, w) => Config::BuzHash(fc(b, mn, mx, w)),
            Cfg::Fixed(n) => Config::FixedSize(n),
        }
    }
    pub fn window(&self) -> usize {
        match *self {
            Cfg::Roll(_, _, _, w) | Cfg::Buz(_, _, _, w) => w,
            Cfg::Fixed(_) => 0,
        }
    }
}

/// Data described by segments, so that MiB-sized inputs have short request lines.
#[derive(Clone, Debug)]
pub enum Seg {
    Rand(u64, usize),
    Const(u8, usize),
    Lit(Vec<u8>),
}

pub fn lcg_bytes(seed: u64, len: usize) -> Vec<u8> {
    let mut x = seed;
    let mut v = Vec::with_capacity(len);
    for _ in 0..len {
        x = x
            .wrapping_mul(6364136223846793005)
            .wrapping_add(1442695040888963407);
        v.push((x >> 56) as u8);
    }
    v
}

pub fn segs_bytes(segs: &[Seg]) -> Vec<u8> {
    let mut v = Vec::new();
    for s in segs {
        match s {
            Seg::Rand(sd, n) => v.extend(lcg_bytes(*sd, *n)),
            Seg::Const(b, n) => v.extend(std::iter::repeat(*b).take(*n)),
            Seg::Lit(b) => v.extend_from_slice(b),
        }
    }
    v
}

pub fn segs_token(segs: &[Seg]) -> String {
    let parts: Vec<String> = segs
        .iter()
        .filter_map(|s| match s {
            Seg::Rand(sd, n) if *n > 0 => Some(format!("r{}:{}", sd, n)),
            Seg::Const(b, n) if *n > 0 => Some(format!("c{}:{}", b, n)),
            Seg::Lit(b) if !b.is_empty() => Some(format!("h{}", h::hex(b))),
            _ => None,
        })
        .collect();
    h::join(&parts, ";")
}

#[derive(Clone, Copy, Debug)]
pub enum Rd {
    Pending,
    Bytes(usize),
}

/// AsyncRead that follows a script and records what it actually delivered.
pub struct ScriptedSource {
    data: Vec<u8>,
    pos: usize,
    script: std::collections::VecDeque<Rd>,
    default_read: usize,
    pub delivered: Vec<String>,
}

impl ScriptedSource {
    pub fn new(data: Vec<u8>, script: Vec<Rd>, default_read: usize) -> Self {
        Self { data, pos: 0, script: script.into(), default_read, delivered: Vec::new() }
    }
}

impl AsyncRead for ScriptedSource {
    fn poll_read(mut self: Pin<&mut Self>, cx: &mut Context<'_>, buf: &mut ReadBuf<'_>) -> Poll<std::io::Result<()>> {
        let ev = self.script.pop_front().unwrap_or(Rd::Bytes(self.default_read));
        match ev {
            Rd::Pending => {
                self.delivered.push("p".into());
                cx.waker().wake_by_ref();
                Poll::Pending
            }
            Rd::Bytes(n) => {
                let k = n.max(1).min(buf.remaining()).min(self.data.len() - self.pos);
                let p = self.pos;
                buf.put_slice(&self.data[p..p + k]);
                self.pos += k;
                self.delivered.push(format!("b{}", k.max(1)));
                Poll::Ready(Ok(()))
            }
        }
    }
}

/// Run the real chunker; returns ((offset,len) list, delivered script tokens, oracle problems).
pub async fn real_chunks(cfg: &Cfg, data: &[u8], script: Vec<Rd>, default_read: usize) -> (Vec<(u64, usize)>, Vec<String>, Vec<&'static str>) {
    let mut src = ScriptedSource::new(data.to_vec(), script, default_read);
    let config = cfg.config();
    let mut out = Vec::new();
    let mut problems = Vec::new();
    {
        let mut stream = config.new_chunker(&mut src);
        let mut expect_off = 0u64;
        let limit = data.len() + 2;
        while let Some(r) = stream.next().await {
            let (off, chunk) = r.unwrap();
            if off != expect_off {
                problems.push("offsets-not-contiguous");
            }
            let o = off as usize;
            if o + chunk.len() > data.len() || chunk.data() != &data[o..o + chunk.len()] {
                problems.push("chunk-bytes-differ-from-input");
            }
            if chunk.len() == 0 {
                problems.push("empty-chunk");
            }
            expect_off = off + chunk.len() as u64;
            out.push((off, chunk.len()));
            if out.len() > limit {
                problems.push("too-many-chunks");
                break;
            }
        }
        if expect_off != data.len() as u64 {
            problems.push("chunks-do-not-cover-input");
        }
    }
    (out, src.delivered, problems)
}

pub fn chunks_token(cs: &[(u64, usize)]) -> String {
    h::join(&cs.iter().map(|(o, l)| format!("{}:{}", o, l)).collect::<Vec<_>>(), ",")
}

fn bounds_problem(cfg: &Cfg, cs: &[(u64, usize)]) -> Option<&'static str> {
    let n = cs.len();
    for (i, (_, l)) in cs.iter().enumerate() {
        if i + 1 == n {
            break;
        }
        match *cfg {
            Cfg::Fixed(k) => {
                if *l != k {
                    return Some("fixed-size-violated");
                }
            }
            Cfg::Roll(_, mn, mx, _) | Cfg::Buz(_, mn, mx, _) => {
                if *l < mn.max(1) || *l > mx {
                    return Some("min-max-violated");
                }
            }
        }
    }
    None
}

fn rand_script(rng: &mut Rng, len: usize) -> (Vec<Rd>, usize) {
    let style = rng.below(7);
    let default_read = match style {
        0 => 1,
        1 => 2,
        2 => 7,
        3 => 64 * 1024,
        4 => (1 << 20) + 1,
        5 => (1 << 20) - 1,
        _ => usize::MAX / 2,
    };
    let mut v = Vec::new();
    let k = rng.below(12) as usize;
    for _ in 0..k {
        if rng.chance(1, 3) {
            v.push(Rd::Pending);
        } else {
            v.push(Rd::Bytes(rng.range(1, (len as u64).max(2)) as usize));
        }
    }
    (v, default_read)
}

async fn one_case(cfg: &Cfg, segs: &[Seg], script: Vec<Rd>, default_read: usize, stats: &mut Stats, with_spec: bool) {
    let data = segs_bytes(segs);
    let (cs, delivered, mut problems) = real_chunks(cfg, &data, script, default_read).await;
    let dtok = segs_token(segs);
    let req = format!("chunk {} {} {}", cfg.token(), dtok, h::join(&delivered, ","));
    let ans = chunks_token(&cs);
    h::emit_case(&req, &ans);
    if with_spec {
        h::emit_case(&format!("chunk-spec {} {}", cfg.token(), dtok), &ans);
    }
    if let Some(p) = bounds_problem(cfg, &cs) {
        problems.push(p);
    }
    for p in problems {
        h::emit_oracle_fail(p, &req);
    }
    stats.cases += 1;
    stats.chunks += cs.len();
    if cs.len() > 1 {
        stats.multi += 1;
    }
    match cfg {
        Cfg::Roll(_, _, mx, _) | Cfg::Buz(_, _, mx, _) => {
            if cs.iter().rev().skip(1).any(|c| c.1 == *mx) {
                stats.cut_at_max += 1;
            }
            if cs.iter().rev().skip(1).any(|c| c.1 < *mx) {
                stats.cut_by_hash += 1;
            }
        }
        _ => {}
    }
    if delivered.iter().filter(|t| t.starts_with('b')).count() > 3 {
        stats.fragmented += 1;
    }
    if cs.iter().any(|c| c.1 > (1 << 20)) {
        stats.chunk_over_refill += 1;
    }
}

#[derive(Default)]
struct Stats {
    cases: usize,
    chunks: usize,
    multi: usize,
    cut_at_max: usize,
    cut_by_hash: usize,
    fragmented: usize,
    chunk_over_refill: usize,
}

impl Stats {
    fn emit(&self) {
        h::emit_stat("cases", self.cases);
        h::emit_stat("chunks_total", self.chunks);
        h::emit_stat("cases_with_several_chunks", self.multi);
        h::emit_stat("cases_with_cut_at_max", self.cut_at_max);
        h::emit_stat("cases_with_cut_by_hash", self.cut_by_hash);
        h::emit_stat("cases_with_more_than_3_reads", self.fragmented);
        h::emit_stat("cases_with_chunk_larger_than_refill_buffer", self.chunk_over_refill);
    }
}

fn small_configs() -> Vec<Cfg> {
    let mut v = Vec::new();
    for w in 1..=3usize {
        for (mn, mx) in [(0usize, 4usize), (1, 5), (2, 6), (3, 3), (4, 7), (5, 8), (0, 3)] {
            if w > mx || mn > mx {
                continue;
            }
            for b in 1..=2u32 {
                v.push(Cfg::Roll(b, mn, mx, w));
                v.push(Cfg::Buz(b, mn, mx, w));
            }
        }
    }
    // RollSum needs no warm-up: the reader accepts a window larger than the maximum chunk size
    for (mn, mx, w) in [(0usize, 2usize, 3usize), (1, 2, 4), (0, 3, 8), (2, 2, 5), (0, 1, 3)] {
        for b in 1..=2u32 {
            v.push(Cfg::Roll(b, mn, mx, w));
        }
    }
    v.push(Cfg::Fixed(1));
    v.push(Cfg::Fixed(3));
    v.push(Cfg::Fixed(4));
    v
}

pub fn rand_config(rng: &mut Rng) -> Cfg {
    if rng.chance(1, 10) {
        return Cfg::Fixed(rng.range(1, 300) as usize);
    }
    let w = *rng.pick(&[1usize, 2, 3, 4, 8, 16, 31, 64, 100, 256]);
    let mn = match rng.below(5) {
        0 => 0,
        1 => rng.below(w as u64 + 1) as usize,
        2 => w,
        3 => w + 1 + rng.below(3) as usize,
        _ => w + rng.range(2, 300) as usize,
    };
    let mx = mn.max(w) + match rng.below(4) {
        0 => 0,
        1 => rng.range(1, 8) as usize,
        _ => rng.range(8, 600) as usize,
    };
    let b = rng.range(1, 9) as u32;
    if rng.chance(1, 2) {
        if rng.chance(1, 6) {
            // window larger than the maximum chunk size (accepted for RollSum only)
            let mx2 = rng.range(1, w as u64 + 1) as usize;
            return Cfg::Roll(b, rng.below(mx2 as u64 + 1) as usize, mx2, w + rng.range(1, 40) as usize);
        }
        Cfg::Roll(b, mn, mx, w)
    } else {
        Cfg::Buz(b, mn, mx, w)
    }
}

pub fn rand_segs(rng: &mut Rng, target: usize, window: usize) -> Vec<Seg> {
    let mut v = Vec::new();
    let mut len = 0usize;
    while len < target {
        let left = target - len;
        let n = (rng.range(1, (left as u64).min(400).max(1)) as usize).min(left);
        let s = match rng.below(8) {
            0 | 1 | 2 => Seg::Rand(rng.next() >> 20, n),
            3 => Seg::Const(0, n),
            4 => Seg::Const(rng.below(256) as u8, n),
            5 => Seg::Const(0, (window + rng.below(3) as usize).saturating_sub(1).max(1).min(left)),
            6 => Seg::Const(*rng.pick(&[0u8, 1, 255]), (window + 1).min(left)),
            _ => Seg::Lit((0..n.min(24)).map(|_| rng.below(3) as u8).collect()),
        };
        len += match &s {
            Seg::Rand(_, n) | Seg::Const(_, n) => *n,
            Seg::Lit(b) => b.len(),
        };
        v.push(s);
    }
    v
}

pub async fn c09(seed: u64, thorough: bool) {
    let mut rng = Rng::new(seed ^ 0xC09);
    let mut st = Stats::default();
    // (a) exhaustive: all strings up to length L over {0,1,2} x small configs, two deliveries each;
    //     for length <= 6 additionally every fragmentation (composition) of the reads
    let max_len = if thorough { 9 } else { 7 };
    let cfgs = small_configs();
    for len in 0..=max_len {
        let total = 3usize.pow(len as u32);
        for code in 0..total {
            let mut c = code;
            let data: Vec<u8> = (0..len).map(|_| { let d = (c % 3) as u8; c /= 3; d }).collect();
            let segs = vec![Seg::Lit(data.clone())];
            for (ci, cfg) in cfgs.iter().enumerate() {
                if !thorough && (code + ci) % 3 != 0 && len > 5 {
                    continue;
                }
                one_case(cfg, &segs, vec![], usize::MAX / 2, &mut st, true).await;
                one_case(cfg, &segs, vec![Rd::Pending], 1, &mut st, false).await;
                if len >= 2 && len <= 6 && (thorough || (code + ci) % 5 == 0) {
                    // every composition of len into read sizes
                    for comp in 0..(1u32 << (len - 1)) {
                        let mut script = Vec::new();
                        let mut run = 1usize;
                        for i in 0..len - 1 {
                            if comp >> i & 1 == 1 {
                                script.push(Rd::Bytes(run));
                                if (comp + i as u32) % 3 == 0 {
                                    script.push(Rd::Pending);
                                }
                                run = 1;
                            } else {
                                run += 1;
                            }
                        }
                        script.push(Rd::Bytes(run));
                        one_case(cfg, &segs, script, 1, &mut st, false).await;
                    }
                }
            }
        }
    }
    h::emit_stat("exhaustive_max_len", max_len);
    // (b) random medium inputs with runs, all kinds of configs and deliveries
    let n_rand = if thorough { 20000 } else { 1500 };
    for _ in 0..n_rand {
        let cfg = rand_config(&mut rng);
        let target = match rng.below(6) {
            0 => rng.below(8) as usize,
            1 => rng.below(cfg.window() as u64 + 3) as usize,
            _ => rng.range(1, 6000) as usize,
        };
        let segs = rand_segs(&mut rng, target, cfg.window().max(1));
        let (script, dr) = rand_script(&mut rng, target);
        one_case(&cfg, &segs, script, dr, &mut st, true).await;
    }
    // (c) large: chunks larger than the 1 MiB refill buffer, reads around the buffer size
    let n_large = if thorough { 6 } else { 1 };
    for i in 0..n_large {
        let w = 8usize;
        let mx = (1usize << 20) + 4096 * (i + 1) + 17;
        let cfg = if i % 2 == 0 { Cfg::Roll(22, 0, mx, w) } else { Cfg::Buz(22, 3000, mx, w) };
        let total = mx * 2 + 12345;
        let segs = vec![
            Seg::Rand(77 + i as u64, total / 3),
            Seg::Const(0, 70000),
            Seg::Rand(78 + i as u64, total - total / 3 - 70000),
        ];
        let dr = [(1usize << 20) + 1, 65536, (1 << 20) - 1, usize::MAX / 2, 4096, 1 << 20][i % 6];
        // (the pure spec recomputes every window from scratch: quadratic, so not asked at this size)
        one_case(&cfg, &segs, vec![Rd::Bytes(5), Rd::Pending], dr, &mut st, false).await;
    }
    st.emit();
}

/// C10: P1+S and P2+S; after a common boundary at least one window into S, all later chunks agree.
pub async fn c10(seed: u64, thorough: bool) {
    let mut rng = Rng::new(seed ^ 0xC10);
    let mut st = Stats::default();
    let n = if thorough { 40000 } else { 3000 };
    let mut n_resync = 0usize;
    let mut n_common = 0usize;
    for case in 0..n {
        let cfg = match case % 3 {
            // small parameters: many boundaries
            0 => {
                let w = rng.range(1, 6) as usize;
                let mn = rng.below(8) as usize;
                let mx = mn.max(w) + rng.range(1, 12) as usize;
                if rng.chance(1, 2) { Cfg::Buz(rng.range(1, 3) as u32, mn, mx, w) } else { Cfg::Roll(rng.range(1, 3) as u32, mn, mx, w) }
            }
            _ => rand_config(&mut rng),
        };
        let w = cfg.window().max(1);
        let slen = rng.range(1, 1500) as usize;
        // the F5-shaped family: S begins with `w` non-zero bytes and then at least w zeros
        let s_segs = if case % 4 == 0 {
            let mut v = vec![Seg::Lit((0..w).map(|_| rng.range(1, 255) as u8).collect()), Seg::Const(0, w + rng.below(4) as usize)];
            v.extend(rand_segs(&mut rng, slen, w));
            v
        } else {
            rand_segs(&mut rng, slen, w)
        };
        let n1 = rng.range(1, 400) as usize;
        let p1 = if rng.chance(1, 3) { vec![] } else { rand_segs(&mut rng, n1, w) };
        let n2 = rng.range(1, 400) as usize;
        let p2 = if rng.chance(1, 6) { vec![] } else { rand_segs(&mut rng, n2, w) };
        let (mut a, mut b) = (p1.clone(), p2.clone());
        a.extend(s_segs.clone());
        b.extend(s_segs.clone());
        let (da, db) = (segs_bytes(&a), segs_bytes(&b));
        let (l1, l2) = (segs_bytes(&p1).len(), segs_bytes(&p2).len());
        if let Cfg::Fixed(k) = cfg {
            if l1 % k != l2 % k {
                continue;
            }
        }
        let (ca, dela, _) = real_chunks(&cfg, &da, vec![], usize::MAX / 2).await;
        let (cb, delb, _) = real_chunks(&cfg, &db, vec![], usize::MAX / 2).await;
        let ra = format!("chunk {} {} {}", cfg.token(), segs_token(&a), h::join(&dela, ","));
        let rb = format!("chunk {} {} {}", cfg.token(), segs_token(&b), h::join(&delb, ","));
        h::emit_case(&ra, &chunks_token(&ca));
        h::emit_case(&rb, &chunks_token(&cb));
        st.cases += 2;
        // oracle: ends relative to S
        let ends_a: Vec<usize> = ca.iter().map(|(o, l)| *o as usize + l).filter(|e| *e >= l1 + w).map(|e| e - l1).collect();
        let ends_b: Vec<usize> = cb.iter().map(|(o, l)| *o as usize + l).filter(|e| *e >= l2 + w).map(|e| e - l2).collect();
        let slen_total = da.len() - l1;
        if let Some(first) = ends_a.iter().find(|e| ends_b.contains(e) && **e < slen_total) {
            n_common += 1;
            let ta: Vec<usize> = ends_a.iter().cloned().filter(|e| e >= first).collect();
            let tb: Vec<usize> = ends_b.iter().cloned().filter(|e| e >= first).collect();
            if ta != tb {
                h::emit_oracle_fail("no-resync-after-common-boundary", &format!("{} || {}", ra, rb));
            } else if ta.len() > 1 {
                n_resync += 1;
            }
        }
    }
    st.emit();
    h::emit_stat("pairs_with_common_boundary", n_common);
    h::emit_stat("pairs_with_nonempty_identical_continuation", n_resync);
}
