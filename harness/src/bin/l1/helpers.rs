//! Helper sub-commands used by the L2 (CLI level) harness.

use std::collections::BTreeMap;

use bitar::api::compress::{create_archive, CreateArchiveOptions};
use bitar::chunker::{Config, FilterBits, FilterConfig};
use bitar::Compression;

use crate::chunking::{Rd, ScriptedSource};

pub fn parse_config(tok: &str) -> Config {
    let p: Vec<&str> = tok.split(':').collect();
    let n = |i: usize| p[i].parse::<usize>().unwrap();
    match p[0] {
        "F" => Config::FixedSize(n(1)),
        k => {
            let f = FilterConfig {
                filter_bits: FilterBits::from_bits(n(1) as u32),
                min_chunk_size: n(2),
                max_chunk_size: n(3),
                window_size: n(4),
            };
            if k == "R" {
                Config::RollSum(f)
            } else {
                Config::BuzHash(f)
            }
        }
    }
}

fn unhex(s: &str) -> Vec<u8> {
    if s == "-" {
        return vec![];
    }
    (0..s.len()).step_by(2).map(|i| u8::from_str_radix(&s[i..i + 2], 16).unwrap()).collect()
}

/// lib-compress <in> <out> <cfg> <hash_len> <none|brotli> <level> <buffers> <md hex:hex,..|-> <read size, 0 = whole>
pub async fn lib_compress(all: &[String]) {
    // several jobs of nine arguments each are carried out one after the other in this process
    for args in all.chunks(9) {
        lib_compress_one(args).await;
    }
}

async fn lib_compress_one(args: &[String]) {
    let src = std::fs::read(&args[0]).unwrap();
    let mut metadata = BTreeMap::new();
    if args[7] != "-" {
        for kv in args[7].split(',') {
            let mut it = kv.split(':');
            let k = String::from_utf8(unhex(it.next().unwrap())).unwrap();
            let v = unhex(it.next().unwrap());
            metadata.insert(k, v);
        }
    }
    let opts = CreateArchiveOptions {
        chunker_config: parse_config(&args[2]),
        num_chunk_buffers: args[6].parse().unwrap(),
        chunk_hash_length: args[3].parse().unwrap(),
        temporary_file_override: None,
        compression: if args[4] == "none" { None } else { Some(Compression::brotli(args[5].parse().unwrap()).unwrap()) },
        metadata,
    };
    let frag: usize = args[8].parse().unwrap();
    let default_read = if frag == 0 { usize::MAX / 2 } else { frag };
    let input = ScriptedSource::new(src, vec![Rd::Bytes(3), Rd::Pending], default_read);
    let mut out: Vec<u8> = Vec::new();
    create_archive(input, &mut out, &opts).await.expect("create_archive");
    if args[1] == "-" {
        use std::io::Write;
        std::io::stdout().write_all(&out).unwrap();
    } else {
        std::fs::write(&args[1], out).unwrap();
    }
}

/// codec <in: one hex chunk per line> <out: one hex compressed chunk per line> <brotli level>
pub fn codec(args: &[String]) {
    let level: u32 = args[2].parse().unwrap();
    let text = std::fs::read_to_string(&args[0]).unwrap();
    let mut out = String::new();
    for line in text.lines() {
        let chunk = bitar::Chunk::from(unhex(line));
        let c = chunk.compress(Some(Compression::brotli(level).unwrap())).unwrap();
        let (_algo, bytes) = c.into_inner();
        if bytes.is_empty() {
            out.push('-');
        } else {
            for b in bytes.iter() {
                out.push_str(&format!("{:02x}", b));
            }
        }
        out.push('\n');
    }
    std::fs::write(&args[1], out).unwrap();
}
