//! C07 / C08: the archive readers against scripted transports.

use std::sync::Arc;

use bita_verif_harness as h;
use bitar::archive_reader::{ArchiveReader, HttpReader, HttpReaderError, IoReader};
use bitar::ChunkOffset;
use futures_util::StreamExt;
use h::httpsrv::{Resp, Server};
use h::scripted_io::{ReadEv, ScriptedFile};
use h::Rng;

fn chunks_token(cs: &[(u64, usize)]) -> String {
    h::join(
        &cs.iter().map(|(o, s)| format!("{}:{}", o, s)).collect::<Vec<_>>(),
        ",",
    )
}

fn script_token(s: &[Resp]) -> String {
    h::join(&s.iter().map(|r| r.token()).collect::<Vec<_>>(), ",")
}

fn reqs_token(log: &[Option<(u64, u64)>]) -> String {
    h::join(
        &log.iter()
            .map(|r| match r {
                Some((o, s)) => format!("{}:{}", o, s),
                None => "?".into(),
            })
            .collect::<Vec<_>>(),
        ",",
    )
}

/// Run the real `HttpReader::read_chunks` against the scripted server.
/// Returns (items, request log, raw range headers).
async fn run_http_chunks(
    srv: &Server,
    data: Arc<Vec<u8>>,
    retry: u32,
    chunks: &[(u64, usize)],
    script: Vec<Resp>,
) -> (Vec<String>, Vec<Option<(u64, u64)>>, Vec<String>) {
    srv.reset(data, script);
    let url = srv.url();
    let chunks: Vec<ChunkOffset> = chunks.iter().map(|&(o, s)| ChunkOffset::new(o, s)).collect();
    let n = chunks.len();
    let res = tokio::spawn(async move {
        let mut reader = HttpReader::from_url(url.parse().unwrap())
            .retries(retry)
            .retry_delay(std::time::Duration::from_millis(0));
        let mut items = Vec::new();
        let mut stream = reader.read_chunks(chunks);
        while let Some(r) = stream.next().await {
            match r {
                Ok(b) => items.push(format!("c{}", h::digest(&b))),
                Err(HttpReaderError::UnexpectedEnd) => {
                    items.push("E".into());
                    break; // StreamUntilFirstError
                }
                Err(HttpReaderError::Http(_)) => {
                    items.push("H".into());
                    break;
                }
                Err(_) => {
                    items.push("?".into());
                    break;
                }
            }
            if items.len() > n + 2 {
                items.push("TOO-MANY".into());
                break;
            }
        }
        items
    })
    .await;
    let items = match res {
        Ok(i) => i,
        Err(e) if e.is_panic() => vec!["P".to_string()],
        Err(_) => vec!["?".to_string()],
    };
    (items, srv.take_log(), srv.take_raw_log())
}

/// A layout of `n` stored chunks: sizes 1..=max_size, a gap before a chunk with probability 1/3.
fn layout(rng: &mut Rng, n: usize, max_size: u64) -> Vec<(u64, usize)> {
    let mut off = rng.below(5);
    let mut v = Vec::new();
    for _ in 0..n {
        if rng.chance(1, 3) {
            off += rng.range(1, 6);
        }
        let s = rng.range(1, max_size);
        v.push((off, s as usize));
        off += s;
    }
    v
}

fn rand_frags(rng: &mut Rng, total: usize) -> Vec<usize> {
    let mut v = Vec::new();
    if total == 0 || rng.chance(1, 3) {
        return v;
    }
    let k = rng.below(4);
    for _ in 0..k {
        v.push(rng.range(1, (total as u64).max(2)) as usize);
    }
    v
}

/// oracle for C07, independent of the model: requests are maximal runs
fn oracle_runs(chunks: &[(u64, usize)]) -> Vec<(u64, u64)> {
    let mut out: Vec<(u64, u64)> = Vec::new();
    let mut prev_end: Option<u64> = None;
    for &(o, s) in chunks {
        if prev_end == Some(o) {
            out.last_mut().unwrap().1 += s as u64;
        } else {
            out.push((o, s as u64));
        }
        prev_end = Some(o + s as u64);
    }
    out
}

pub async fn c07(seed: u64, thorough: bool) {
    let srv = Server::start().await;
    let mut rng = Rng::new(seed ^ 0xC07);
    let mut n_cases = 0usize;
    let mut n_multi_run = 0usize;
    let mut n_merged = 0usize;

    let mut one = |chunks: Vec<(u64, usize)>, frag: bool, rng: &mut Rng| {
        let dlen = chunks.iter().map(|(o, s)| o + *s as u64).max().unwrap_or(0) as usize + 3;
        let runs = oracle_runs(&chunks);
        // fragmentation: none, random, or *aligned with the chunk boundaries inside the run*
        // (a body frame that ends exactly where a chunk ends, with the rest still in flight)
        let aligned = frag && rng.chance(1, 2);
        let mut idx = 0usize;
        let script: Vec<Resp> = runs
            .iter()
            .map(|(_, s)| {
                let mut fr = Vec::new();
                let mut left = *s as usize;
                while left > 0 && idx < chunks.len() {
                    fr.push(chunks[idx].1);
                    left -= chunks[idx].1.min(left);
                    idx += 1;
                }
                Resp::Full(if aligned { fr } else if frag { rand_frags(rng, *s as usize) } else { vec![] })
            })
            .collect();
        (chunks, dlen, runs, script)
    };

    // (a) exhaustive: every non-empty subset of the descriptors of small archives
    let n_layouts = if thorough { 6 } else { 2 };
    let n_chunks = if thorough { 10 } else { 8 };
    for _ in 0..n_layouts {
        let lay = layout(&mut rng, n_chunks, 9);
        for mask in 1u32..(1 << n_chunks) {
            let chunks: Vec<(u64, usize)> = (0..n_chunks)
                .filter(|i| mask >> i & 1 == 1)
                .map(|i| lay[i])
                .collect();
            let (chunks, dlen, runs, script) = one(chunks, mask % 5 == 0, &mut rng);
            let req = format!(
                "http 0 {} {} {}",
                dlen,
                chunks_token(&chunks),
                script_token(&script)
            );
            let data = Arc::new(h::pattern(dlen));
            let (items, log, raw) = run_http_chunks(&srv, data.clone(), 0, &chunks, script).await;
            let ans = format!("items={} reqs={}", h::join(&items, ","), reqs_token(&log));
            h::emit_case(&req, &ans);
            // the header text, against the independent spec in the driver
            h::emit_case(&format!("runs {}", chunks_token(&chunks)), &h::join(&raw, ","));
            // direct oracle
            let got: Vec<(u64, u64)> = log.iter().map(|r| r.unwrap_or((u64::MAX, 0))).collect();
            if got != runs {
                h::emit_oracle_fail("requests-not-maximal-runs", &req);
            }
            for (i, (o, s)) in chunks.iter().enumerate() {
                let want = format!("c{}", h::digest(&data[*o as usize..*o as usize + *s]));
                if items.get(i) != Some(&want) {
                    h::emit_oracle_fail("wrong-chunk-bytes", &req);
                    break;
                }
            }
            n_cases += 1;
            if runs.len() > 1 {
                n_multi_run += 1;
            }
            if runs.len() < chunks.len() {
                n_merged += 1;
            }
        }
    }
    // (b) random larger lists, including unordered and repeated ranges
    let n_rand = if thorough { 3000 } else { 300 };
    for _ in 0..n_rand {
        let n = rng.range(1, 40) as usize;
        let mx = if rng.chance(1, 5) { 3000 } else { 40 };
        let mut lay = layout(&mut rng, n, mx);
        // random subset
        let keep = rng.range(1, 4);
        lay.retain(|_| rng.below(4) < keep);
        if lay.is_empty() {
            continue;
        }
        if rng.chance(1, 4) {
            // unordered: swap some
            for _ in 0..rng.below(4) {
                let i = rng.below(lay.len() as u64) as usize;
                let j = rng.below(lay.len() as u64) as usize;
                lay.swap(i, j);
            }
        }
        let (chunks, dlen, runs, script) = one(lay, true, &mut rng);
        let req = format!(
            "http 0 {} {} {}",
            dlen,
            chunks_token(&chunks),
            script_token(&script)
        );
        let data = Arc::new(h::pattern(dlen));
        let (items, log, raw) = run_http_chunks(&srv, data.clone(), 0, &chunks, script).await;
        let ans = format!("items={} reqs={}", h::join(&items, ","), reqs_token(&log));
        h::emit_case(&req, &ans);
        h::emit_case(&format!("runs {}", chunks_token(&chunks)), &h::join(&raw, ","));
        let got: Vec<(u64, u64)> = log.iter().map(|r| r.unwrap_or((u64::MAX, 0))).collect();
        if got != runs {
            h::emit_oracle_fail("requests-not-maximal-runs", &req);
        }
        n_cases += 1;
        if runs.len() > 1 {
            n_multi_run += 1;
        }
        if runs.len() < chunks.len() {
            n_merged += 1;
        }
    }
    // (b') one very long run: however much a run of adjacent chunks holds it is ONE request (36 MiB here, 160 MiB in
    // the thorough tier - beyond any buffer or per-response size a reader might think of), then a second, short run
    {
        let piece = 4usize << 20;
        let n_pieces = if thorough { 40 } else { 9 };
        let mut lay: Vec<(u64, usize)> = Vec::new();
        let mut off = 3031u64;
        for _ in 0..n_pieces {
            lay.push((off, piece));
            off += piece as u64;
        }
        off += 77;
        lay.push((off, 1000));
        let dlen = off as usize + 1000 + 5;
        let data = Arc::new(h::pattern(dlen));
        let req = format!("long-run pieces={}x{} then {}:1000", n_pieces, piece, off);
        println!("TRY\t{}", req);
        srv.reset(data.clone(), vec![]);
        let mut reader = HttpReader::from_url(srv.url().parse().unwrap()).retries(0);
        let mut exact = true;
        let mut k = 0usize;
        {
            let mut stream = reader.read_chunks(lay.iter().map(|&(o, s)| ChunkOffset::new(o, s)).collect());
            loop {
                match tokio::time::timeout(std::time::Duration::from_secs(120), stream.next()).await {
                    Ok(Some(Ok(b))) => {
                        if k >= lay.len() || b[..] != data[lay[k].0 as usize..lay[k].0 as usize + lay[k].1] {
                            exact = false;
                        }
                        k += 1;
                    }
                    Ok(Some(Err(_))) => {
                        exact = false;
                        break;
                    }
                    Ok(None) => break,
                    Err(_) => h::hung(&req),
                }
            }
        }
        let log = srv.take_log();
        let got: Vec<(u64, u64)> = log.iter().map(|r| r.unwrap_or((u64::MAX, 0))).collect();
        let want = oracle_runs(&lay);
        if got != want {
            h::emit_oracle_fail("requests-are-not-the-maximal-runs", &format!("{} got={}", req, reqs_token(&log)));
        }
        if !exact || k != lay.len() {
            h::emit_oracle_fail("long-run-not-delivered-exactly", &req);
        }
        h::emit_stat("long_run_bytes", n_pieces * piece);
    }
    // (c) archive level: `Archive::chunk_stream(index)` over HTTP for every subset of the descriptors of
    // real archives (what a clone asks for when the other chunks were found in seeds): exactly the
    // missing descriptors are delivered, in archive order, through the maximal runs of their stored ranges.
    let mut n_arch_cases = 0usize;
    let mut n_arch_small_between = 0usize;
    let mut n_arch_foreign = 0usize;
    let n_arch = if thorough { 12 } else { 4 };
    for ai in 0..n_arch {
        use bitar::api::compress::{create_archive, CreateArchiveOptions};
        use bitar::chunker::Config;
        // 6..9 distinct blocks of very different sizes (some well under 512 stored bytes between large ones),
        // some of them repeated at non-adjacent positions of the source
        let nblocks = rng.range(6, 9) as usize;
        let bs = *rng.pick(&[64usize, 300, 700]);
        let blocks: Vec<Vec<u8>> = (0..nblocks).map(|i| super::chunking::lcg_bytes(1000 * ai as u64 + i as u64 + seed, bs)).collect();
        let mut order: Vec<usize> = (0..nblocks).collect();
        if ai % 2 == 0 {
            order.push(0);
            order.push(2);
        }
        let mut src = Vec::new();
        for &i in &order {
            src.extend_from_slice(&blocks[i]);
        }
        if ai % 3 == 0 {
            src.extend_from_slice(&blocks[1][..bs / 3]);
        }
        // compressible blocks get small stored sizes next to raw ones
        let compress = ai % 2 == 1;
        if compress {
            for (k, b) in src.chunks_mut(bs).enumerate() {
                if k % 3 == 1 {
                    for (j, x) in b.iter_mut().enumerate() {
                        *x = (k as u8).wrapping_add((j / 32) as u8);
                    }
                }
            }
        }
        let opts = CreateArchiveOptions {
            chunker_config: Config::FixedSize(bs),
            num_chunk_buffers: 2,
            chunk_hash_length: 16,
            temporary_file_override: None,
            compression: if compress { Some(bitar::Compression::brotli(5).unwrap()) } else { None },
            metadata: Default::default(),
        };
        let mut arch: Vec<u8> = Vec::new();
        create_archive(std::io::Cursor::new(src.clone()), &mut arch, &opts).await.expect("create_archive");
        let arch = Arc::new(arch);
        srv.reset(arch.clone(), vec![]);
        let url = srv.url();
        let reader = HttpReader::from_url(url.parse().unwrap()).retries(0);
        let mut archive = match bitar::Archive::try_init(reader).await {
            Ok(a) => a,
            Err(_) => {
                h::emit_oracle_fail("own-archive-does-not-open-over-http", &format!("archive-level {}", ai));
                continue;
            }
        };
        let descr: Vec<(bitar::HashSum, u64, usize)> =
            archive.chunk_descriptors().iter().map(|d| (d.checksum.clone(), d.archive_offset, d.archive_size)).collect();
        let nd = descr.len().min(10);
        for mask in 1u32..(1 << nd) {
            let mut ix = archive.build_source_index();
            let mut wanted: Vec<&(bitar::HashSum, u64, usize)> = Vec::new();
            for (i, d) in descr.iter().enumerate() {
                if i < nd && mask >> i & 1 == 1 {
                    wanted.push(d);
                } else {
                    ix.remove(&d.0);
                }
            }
            // every other case the index also holds chunks this archive does not have (the index of another
            // release used against this archive), as many as make it exactly as long as the descriptor list
            // or one longer: still only the wanted descriptors may be requested
            if mask % 2 == 1 {
                let extra = descr.len() + (mask as usize / 2) % 2 - ix.len().min(descr.len());
                for j in 0..extra {
                    let foreign: Vec<u8> = (0..16).map(|b| (0xA5u8).wrapping_add((j * 31 + b * 7 + ai) as u8)).collect();
                    ix.add_chunk(bitar::HashSum::from(foreign), 77, &[(1u64 << 40) + j as u64 * 77]);
                }
                n_arch_foreign += 1;
            }
            srv.reset(arch.clone(), vec![]);
            let mut got_hashes: Vec<bitar::HashSum> = Vec::new();
            let mut bad = false;
            {
                let mut stream = archive.chunk_stream(&ix);
                while let Some(r) = stream.next().await {
                    match r.ok().and_then(|c| c.decompress().ok()).and_then(|c| c.verify().ok()) {
                        Some(v) => got_hashes.push(v.hash().clone()),
                        None => {
                            bad = true;
                            break;
                        }
                    }
                }
            }
            let log = srv.take_log();
            let raw = srv.take_raw_log();
            let ranges: Vec<(u64, usize)> = wanted.iter().map(|d| (d.1, d.2)).collect();
            let runs = oracle_runs(&ranges);
            let req = format!("archive-level bs={} compress={} descriptors={} wanted-mask={:b} ranges={}", bs, compress, descr.len(), mask, chunks_token(&ranges));
            let got: Vec<(u64, u64)> = log.iter().map(|r| r.unwrap_or((u64::MAX, 0))).collect();
            if got != runs {
                h::emit_oracle_fail("archive-level-requests-are-not-the-maximal-runs-of-the-missing-chunks", &format!("{} got={}", req, reqs_token(&log)));
            }
            if bad || got_hashes.len() != wanted.len() || got_hashes.iter().zip(wanted.iter()).any(|(g, w)| *g != w.0) {
                h::emit_oracle_fail("archive-level-delivered-chunks-are-not-exactly-the-missing-ones-in-archive-order", &req);
            }
            // the Range header text against the independent spec in the driver
            h::emit_case(&format!("runs {}", chunks_token(&ranges)), &h::join(&raw, ","));
            n_arch_cases += 1;
            // a lone small stored chunk that is NOT wanted, between two wanted ones
            for w in descr.windows(3) {
                if w[1].2 <= 512
                    && wanted.iter().any(|d| d.0 == w[0].0)
                    && wanted.iter().any(|d| d.0 == w[2].0)
                    && !wanted.iter().any(|d| d.0 == w[1].0)
                {
                    n_arch_small_between += 1;
                    break;
                }
            }
        }
    }
    h::emit_stat("cases", n_cases);
    h::emit_stat("cases_with_several_runs", n_multi_run);
    h::emit_stat("cases_with_merged_chunks", n_merged);
    h::emit_stat("exhaustive_subsets_of_chunks", n_chunks);
    h::emit_stat("archive_level_subset_cases", n_arch_cases);
    h::emit_stat("archive_level_cases_with_small_unwanted_chunk_between_wanted", n_arch_small_between);
    h::emit_stat("archive_level_cases_with_foreign_index_entries", n_arch_foreign);
}

fn rand_fault(rng: &mut Rng, remaining: usize) -> Resp {
    match rng.below(10) {
        0 | 1 => Resp::Refuse,
        2..=5 => {
            let n = rng.below(remaining as u64 + 2) as usize;
            Resp::Part(n, rand_frags(rng, n), true)
        }
        6 => {
            let n = rng.below(remaining as u64 + 1) as usize;
            Resp::Part(n, rand_frags(rng, n), false)
        }
        _ => Resp::Full(rand_frags(rng, remaining)),
    }
}

pub async fn c08_http(seed: u64, thorough: bool) {
    let mut n_surplus_cases = 0usize;
    let srv = Server::start().await;
    let mut rng = Rng::new(seed ^ 0xC08);
    let mut n_cases = 0usize;
    let mut kinds: std::collections::BTreeMap<String, usize> = Default::default();

    let mut run_case = |chunks: Vec<(u64, usize)>, retry: u32, script: Vec<Resp>| {
        let dlen = chunks.iter().map(|(o, s)| o + *s as u64).max().unwrap_or(0) as usize + 2;
        (chunks, dlen, retry, script)
    };

    // (a) exhaustive: one run of two chunks (body = 12 bytes), every cut offset, budgets 0..3,
    //     one or two cuts, cut vs clean end
    let body = 12usize;
    let chunks0 = vec![(5u64, 7usize), (12u64, 5usize), (30u64, 4usize)];
    let budgets: Vec<u32> = if thorough { vec![0, 1, 2, 3] } else { vec![0, 1, 2] };
    let mut exhaustive: Vec<(u32, Vec<Resp>)> = Vec::new();
    for &b in &budgets {
        for c1 in 0..=body {
            for &cut1 in &[true, false] {
                exhaustive.push((b, vec![Resp::Part(c1, vec![], cut1)]));
                if cut1 && (thorough || c1 % 3 == 1) {
                    for c2 in 0..=(body - c1) {
                        exhaustive.push((b, vec![Resp::Part(c1, vec![], true), Resp::Part(c2, vec![], true)]));
                        exhaustive.push((b, vec![Resp::Part(c1, vec![], true), Resp::Refuse, Resp::Part(c2, vec![1], false)]));
                    }
                }
            }
        }
        exhaustive.push((b, vec![Resp::Refuse]));
        exhaustive.push((b, vec![Resp::Refuse, Resp::Refuse]));
        exhaustive.push((b, vec![Resp::Refuse, Resp::Refuse, Resp::Refuse, Resp::Refuse]));
    }
    let mut all: Vec<(Vec<(u64, usize)>, u32, Vec<Resp>)> = exhaustive
        .into_iter()
        .map(|(b, s)| (chunks0.clone(), b, s))
        .collect();
    let n_exh = all.len();
    // (b) random
    let n_rand = if thorough { 4000 } else { 500 };
    for _ in 0..n_rand {
        let n = rng.range(1, 12) as usize;
        let mx = if rng.chance(1, 6) { 5000 } else { 30 };
        let mut lay = layout(&mut rng, n, mx);
        if rng.chance(1, 4) {
            let i = rng.below(lay.len() as u64) as usize;
            let j = rng.below(lay.len() as u64) as usize;
            lay.swap(i, j);
        }
        let retry = rng.below(4) as u32;
        let total: usize = lay.iter().map(|c| c.1).sum();
        let k = rng.below(7) as usize;
        let script: Vec<Resp> = (0..k).map(|_| rand_fault(&mut rng, total.min(60))).collect();
        all.push((lay, retry, script));
    }
    for (chunks, retry, mut script) in all {
        // the server answers in full once its script is exhausted: say so to the model too
        for _ in 0..=chunks.len() {
            script.push(Resp::Full(vec![]));
        }
        let (chunks, dlen, retry, script) = run_case(chunks, retry, script);
        let req = format!(
            "http {} {} {} {}",
            retry,
            dlen,
            chunks_token(&chunks),
            script_token(&script)
        );
        let data = Arc::new(h::pattern(dlen));
        let (items, log, _raw) = run_http_chunks(&srv, data.clone(), retry, &chunks, script).await;
        let ans = format!("items={} reqs={}", h::join(&items, ","), reqs_token(&log));
        h::emit_case(&req, &ans);
        // the same request against the run-level specification
        h::emit_case(&req.replacen("http ", "http-spec ", 1), &ans);
        // direct oracle: items are an exact prefix, then at most one error
        let mut ok = true;
        let mut seen_err = false;
        for (i, it) in items.iter().enumerate() {
            if seen_err {
                ok = false;
            }
            if it.starts_with('c') {
                match chunks.get(i) {
                    Some((o, s)) => {
                        if *it != format!("c{}", h::digest(&data[*o as usize..*o as usize + *s])) {
                            ok = false;
                        }
                    }
                    None => ok = false,
                }
            } else {
                seen_err = true;
            }
        }
        if !seen_err && items.len() != chunks.len() {
            ok = false;
        }
        if !ok {
            h::emit_oracle_fail("not-exact-prefix-then-error", &req);
        }
        let kind = if !seen_err { "all-delivered".to_string() } else { format!("ends-{}", items.last().unwrap()) };
        *kinds.entry(kind).or_default() += 1;
        if log.len() > oracle_runs(&chunks).len() {
            *kinds.entry("with-retries".into()).or_default() += 1;
        }
        n_cases += 1;
    }
    // a server that sends MORE than asked for on every answer, lists with several runs: the surplus of one
    // run must not leak into the next (each chunk exact, one request per run, no panic)
    let n_surplus = if thorough { 1500 } else { 200 };
    for _ in 0..n_surplus {
        let n = rng.range(2, 8) as usize;
        let mut lay = layout(&mut rng, n, 24);
        // make sure there are gaps: drop some chunks
        lay.retain(|_| rng.below(3) > 0);
        if lay.len() < 2 {
            continue;
        }
        let runs = oracle_runs(&lay);
        let next_size = lay.get(1).map(|c| c.1).unwrap_or(1);
        let extra = match rng.below(4) {
            0 => 1,
            1 => next_size,
            2 => next_size + rng.below(40) as usize,
            _ => rng.range(1, 3000) as usize,
        };
        let dlen = lay.iter().map(|(o, s)| o + *s as u64).max().unwrap() as usize + 3;
        let script: Vec<Resp> = runs.iter().map(|_| Resp::Extra(extra)).collect();
        let req = format!(
            "http-x {} 0 {} {} {}",
            extra,
            dlen,
            chunks_token(&lay),
            h::join(&runs.iter().map(|_| "F".to_string()).collect::<Vec<_>>(), ",")
        );
        println!("TRY\t{}", req);
        let data = Arc::new(h::pattern(dlen));
        let (items, log, _raw) = run_http_chunks(&srv, data.clone(), 0, &lay, script).await;
        h::emit_case(&req, &format!("items={} reqs={}", h::join(&items, ","), reqs_token(&log)));
        let mut ok = items.len() == lay.len();
        for (i, (o, s_)) in lay.iter().enumerate() {
            if items.get(i) != Some(&format!("c{}", h::digest(&data[*o as usize..*o as usize + *s_]))) {
                ok = false;
            }
        }
        let got: Vec<(u64, u64)> = log.iter().map(|r| r.unwrap_or((u64::MAX, 0))).collect();
        if !ok || got != runs {
            h::emit_oracle_fail("surplus-from-the-server-changed-what-was-delivered-or-requested", &req);
        }
        n_surplus_cases += 1;
    }
    h::emit_stat("surplus_server_cases", n_surplus_cases);
    // (e) history on ONE reader: an earlier `read_chunks` stream that was dropped before its end, or that
    // ended in an error in the middle of a body, must leave nothing behind - the next call on the same
    // reader is judged (model and oracle) as if the reader were new
    let n_seq = if thorough { 600 } else { 120 };
    let mut n_seq_done = 0usize;
    for i in 0..n_seq {
        let dlen = 400usize;
        let data = Arc::new(h::pattern(dlen));
        // call 1: a group of adjacent chunks (one request); either dropped after k items or cut mid-body
        let n1 = rng.range(2, 5) as usize;
        let mut off = rng.range(0, 40);
        let mut l1: Vec<(u64, usize)> = Vec::new();
        for _ in 0..n1 {
            let sz = rng.range(3, 20) as usize;
            l1.push((off, sz));
            off += sz as u64;
        }
        let total1: usize = l1.iter().map(|c| c.1).sum();
        let fail_first = i % 2 == 1;
        let script1 = if fail_first {
            // some whole chunks and a part of the next one arrive, then the body is cut; no retries
            let cut = l1[0].1 + 1 + rng.below((total1 - l1[0].1 - 1) as u64) as usize;
            vec![Resp::Part(cut, vec![], true)]
        } else {
            vec![Resp::Full(vec![])]
        };
        let take = if fail_first { n1 + 1 } else { rng.range(1, n1 as u64 - 1) as usize };
        // call 2: any list
        let n2 = rng.range(1, 6) as usize;
        let l2 = layout(&mut rng, n2, 25);
        let mut script2: Vec<Resp> = Vec::new();
        for _ in 0..=l2.len() {
            script2.push(Resp::Full(if rng.chance(1, 2) { rand_frags(&mut rng, 30) } else { vec![] }));
        }
        if l2.iter().any(|(o, s)| *o as usize + *s > dlen) {
            continue;
        }
        let req = format!("http 0 {} {} {}", dlen, chunks_token(&l2), script_token(&script2));
        println!("TRY\thttp-sequence first={} {} then {}", chunks_token(&l1), if fail_first { "cut-mid-body" } else { "dropped-early" }, req);
        srv.reset(data.clone(), script1);
        let mut reader = HttpReader::from_url(srv.url().parse().unwrap()).retries(0).retry_delay(std::time::Duration::from_millis(0));
        {
            let mut stream = reader.read_chunks(l1.iter().map(|&(o, s)| ChunkOffset::new(o, s)).collect());
            let mut got = 0;
            while got < take {
                match tokio::time::timeout(std::time::Duration::from_secs(20), stream.next()).await {
                    Ok(Some(Ok(_))) => got += 1,
                    Ok(_) => break,
                    Err(_) => h::hung(&req),
                }
            }
        }
        srv.reset(data.clone(), script2);
        let mut items: Vec<String> = Vec::new();
        let mut exact = true;
        {
            let mut stream = reader.read_chunks(l2.iter().map(|&(o, s)| ChunkOffset::new(o, s)).collect());
            let mut k = 0usize;
            loop {
                match tokio::time::timeout(std::time::Duration::from_secs(20), stream.next()).await {
                    Ok(Some(Ok(b))) => {
                        if k >= l2.len() || b[..] != data[l2[k].0 as usize..l2[k].0 as usize + l2[k].1] {
                            exact = false;
                        }
                        items.push(format!("c{}", h::digest(&b)));
                        k += 1;
                    }
                    Ok(Some(Err(HttpReaderError::UnexpectedEnd))) => {
                        items.push("E".into());
                        break;
                    }
                    Ok(Some(Err(_))) => {
                        items.push("H".into());
                        break;
                    }
                    Ok(None) => break,
                    Err(_) => h::hung(&req),
                }
                if items.len() > l2.len() + 2 {
                    break;
                }
            }
            if k != l2.len() {
                exact = false;
            }
        }
        let log = srv.take_log();
        if !exact {
            h::emit_oracle_fail(
                "second-read-on-the-same-reader-is-not-exactly-the-requested-ranges",
                &format!("first={} {} then {}", chunks_token(&l1), if fail_first { "cut-mid-body" } else { "dropped-early" }, req),
            );
        }
        h::emit_case(&req, &format!("items={} reqs={}", h::join(&items, ","), reqs_token(&log)));
        n_seq_done += 1;
        n_cases += 1;
    }
    h::emit_stat("sequences_on_one_reader_after_an_abandoned_or_failed_stream", n_seq_done);
    h::emit_stat("cases", n_cases);
    h::emit_stat("exhaustive_cases", n_exh);
    for (k, v) in kinds {
        h::emit_stat(&format!("kind_{}", k), v);
    }
}

fn rand_read_script(rng: &mut Rng, total: usize) -> Vec<ReadEv> {
    let mut v = Vec::new();
    let style = rng.below(5);
    let mut budget = 0usize;
    let want = if rng.chance(1, 8) { total / 2 } else { total + 4 };
    while budget < want {
        if rng.chance(1, 4) {
            v.push(ReadEv::Pending);
            continue;
        }
        let n = match style {
            0 => 1,
            1 => rng.range(1, 3) as usize,
            2 => rng.range(1, 64) as usize,
            3 => 1 << rng.below(12),
            _ => rng.range(1, 100000) as usize,
        };
        if rng.chance(1, 60) {
            v.push(ReadEv::Err);
        } else if rng.chance(1, 80) {
            v.push(ReadEv::Bytes(0));
        } else {
            v.push(ReadEv::Bytes(n));
        }
        budget += 1; // every read delivers at least one byte when it can
    }
    v
}

pub async fn c08_io(seed: u64, thorough: bool) {
    let mut rng = Rng::new(seed ^ 0x10C08);
    let n_rand = if thorough { 40000 } else { 3000 };
    let mut kinds: std::collections::BTreeMap<String, usize> = Default::default();
    for case in 0..n_rand {
        let n = rng.range(1, 10) as usize;
        let mx = if rng.chance(1, 6) { 4000 } else { 24 };
        let mut lay = layout(&mut rng, n, mx);
        if rng.chance(1, 3) {
            let i = rng.below(lay.len() as u64) as usize;
            let j = rng.below(lay.len() as u64) as usize;
            lay.swap(i, j);
        }
        let end = lay.iter().map(|(o, s)| o + *s as u64).max().unwrap() as usize;
        // sometimes the file is too short for the last ranges
        let flen = if rng.chance(1, 6) { end - rng.below(end.min(6) as u64 + 1) as usize } else { end + rng.below(4) as usize };
        let total: usize = lay.iter().map(|c| c.1).sum();
        let script = rand_read_script(&mut rng, total);
        let req = format!(
            "io {} {} {}",
            flen,
            chunks_token(&lay),
            h::join(&script.iter().map(|e| e.token()).collect::<Vec<_>>(), ",")
        );
        let data = h::pattern(flen);
        let mut file = ScriptedFile::new(data.clone(), script);
        file.pend_seeks = case % 3 == 0;
        let chunks: Vec<ChunkOffset> = lay.iter().map(|&(o, s)| ChunkOffset::new(o, s)).collect();
        let res = tokio::spawn(async move {
            let mut reader = IoReader::new(file);
            let mut items: Vec<String> = Vec::new();
            let mut stream = reader.read_chunks(chunks);
            while let Some(r) = stream.next().await {
                match r {
                    Ok(b) => items.push(format!("c{}", h::digest(&b))),
                    Err(e) => {
                        items.push(
                            if e.kind() == std::io::ErrorKind::UnexpectedEof {
                                "F"
                            } else if e.to_string() == "stall" {
                                "S"
                            } else {
                                "I"
                            }
                            .into(),
                        );
                        break;
                    }
                }
            }
            items
        });
        let res = match tokio::time::timeout(std::time::Duration::from_secs(20), res).await {
            Ok(r) => r,
            Err(_) => h::hung(&req),
        };
        let items = match res {
            Ok(i) => i,
            Err(_) => vec!["P".to_string()],
        };
        h::emit_case(&req, &format!("items={}", h::join(&items, ",")));
        // oracle
        let mut ok = true;
        let mut seen_err = false;
        for (i, it) in items.iter().enumerate() {
            if seen_err {
                ok = false;
            }
            if it.starts_with('c') {
                let (o, s) = lay[i.min(lay.len() - 1)];
                let (o, s) = (o as usize, s);
                if i >= lay.len() || o + s > data.len() || *it != format!("c{}", h::digest(&data[o..o + s])) {
                    ok = false;
                }
            } else {
                seen_err = true;
            }
        }
        if !seen_err && items.len() != lay.len() {
            ok = false;
        }
        if !ok {
            h::emit_oracle_fail("local-not-exact-prefix-then-error", &req);
        }
        let kind = if !seen_err { "all-delivered".to_string() } else { format!("ends-{}", items.last().unwrap()) };
        *kinds.entry(kind).or_default() += 1;
    }
    // Ranges beyond the reader's 1 MiB block (sizes that are not multiples of it, back to back and apart), under
    // whole and fragmented reads: judged by the exactness oracle alone (the list model would need millions of steps)
    let n_big = if thorough { 24 } else { 6 };
    for case in 0..n_big {
        let mib = 1usize << 20;
        let sizes = [mib + 1, mib - 1, 2 * mib + 12345, mib, 3 * mib / 2, 700_001];
        let mut lay: Vec<(u64, usize)> = Vec::new();
        let mut off = rng.range(0, 5000);
        for k in 0..3 {
            let sz = sizes[(case + 2 * k) % sizes.len()];
            lay.push((off, sz));
            off += sz as u64 + if (case + k) % 2 == 0 { 0 } else { rng.range(1, 9000) };
        }
        if case % 3 == 2 {
            lay.swap(0, 2);
        }
        let flen = off as usize + 10;
        let data = h::pattern(flen);
        let script: Vec<ReadEv> = match case % 3 {
            0 => vec![],
            1 => (0..40).map(|_| ReadEv::Bytes(rng.range(1, 300_000) as usize)).collect(),
            _ => (0..12).flat_map(|_| vec![ReadEv::Bytes(rng.range(1, mib as u64 + 7) as usize), ReadEv::Pending]).collect(),
        };
        let req = format!("io-big {} {} script={}", flen, chunks_token(&lay), script.len());
        println!("TRY\t{}", req);
        let mut file = ScriptedFile::new(data.clone(), script);
        // once the script is used up the file reads normally (as much as is asked for)
        file.default_read = Some(usize::MAX / 2);
        let chunks: Vec<ChunkOffset> = lay.iter().map(|&(o, s)| ChunkOffset::new(o, s)).collect();
        let res = tokio::time::timeout(std::time::Duration::from_secs(60), tokio::spawn(async move {
            let mut reader = IoReader::new(file);
            let mut out: Vec<Result<Vec<u8>, ()>> = Vec::new();
            let mut stream = reader.read_chunks(chunks);
            while let Some(r) = stream.next().await {
                match r {
                    Ok(b) => out.push(Ok(b.to_vec())),
                    Err(_) => {
                        out.push(Err(()));
                        break;
                    }
                }
            }
            out
        }))
        .await;
        match res {
            Err(_) => h::hung(&req),
            Ok(Err(_)) => h::emit_oracle_fail("local-reader-panic", &req),
            Ok(Ok(items)) => {
                let exact = items.len() == lay.len()
                    && items.iter().zip(lay.iter()).all(|(it, &(o, s))| matches!(it, Ok(b) if b[..] == data[o as usize..o as usize + s]));
                if !exact {
                    h::emit_oracle_fail("local-not-exact-prefix-then-error", &req);
                }
            }
        }
        *kinds.entry("big-ranges".to_string()).or_default() += 1;
    }
    // Sequences of calls on ONE reader whose file handle starts anywhere: `read_at` and `read_chunks`
    // interleaved, lists that start at offset 0, at the position the previous call ended at, or
    // before it.  Every call must deliver exactly its ranges (the model seeks per call, so the
    // per-call model is the oracle: the exact slices).
    let n_seq = if thorough { 6000 } else { 600 };
    let mut seq_calls = 0usize;
    for case in 0..n_seq {
        let flen = rng.range(40, 400) as usize;
        let data = h::pattern(flen);
        let mut file = ScriptedFile::new(data.clone(), vec![]);
        file.default_read = Some(*rng.pick(&[1usize, 3, 7, 64, 1000]));
        file.pos = rng.below(flen as u64 + 1);
        file.pend_seeks = case % 4 == 0;
        // plan: 2..5 calls
        let mut plan: Vec<(bool, Vec<(u64, usize)>)> = Vec::new();
        let mut last_end = file.pos;
        for _ in 0..rng.range(2, 5) {
            let start = match rng.below(4) {
                0 => 0,
                1 => last_end.min(flen as u64 - 1),
                _ => rng.below(flen as u64 / 2),
            };
            let is_at = rng.chance(1, 3);
            let mut list = Vec::new();
            let mut off = start;
            for _ in 0..(if is_at { 1 } else { rng.range(1, 4) }) {
                if off >= flen as u64 {
                    break;
                }
                let sz = rng.range(1, (flen as u64 - off).min(40)) as usize;
                list.push((off, sz));
                off += sz as u64;
                if rng.chance(1, 3) {
                    off += rng.below(5);
                }
            }
            if list.is_empty() {
                continue;
            }
            last_end = off;
            plan.push((is_at, list));
        }
        let desc = format!(
            "io-seq flen={} pos0={} calls={}",
            flen,
            file.pos,
            h::join(
                &plan.iter().map(|(a, l)| format!("{}{}", if *a { "at:" } else { "chunks:" }, chunks_token(l))).collect::<Vec<_>>(),
                ";"
            )
        );
        let plan2 = plan.clone();
        let data2 = data.clone();
        let res = tokio::spawn(async move {
            let mut reader = IoReader::new(file);
            let mut bad: Option<String> = None;
            for (ci, (is_at, list)) in plan2.iter().enumerate() {
                if *is_at {
                    let (o, sz) = list[0];
                    match reader.read_at(o, sz).await {
                        Ok(b) if b[..] == data2[o as usize..o as usize + sz] => {}
                        _ => bad = Some(format!("call {} read_at", ci)),
                    }
                } else {
                    let chunks: Vec<ChunkOffset> = list.iter().map(|&(o, sz)| ChunkOffset::new(o, sz)).collect();
                    let mut stream = reader.read_chunks(chunks);
                    let mut k = 0usize;
                    while let Some(r) = stream.next().await {
                        let (o, sz) = list[k.min(list.len() - 1)];
                        match r {
                            Ok(b) if k < list.len() && b[..] == data2[o as usize..o as usize + sz] => {}
                            _ => bad = Some(format!("call {} read_chunks item {}", ci, k)),
                        }
                        k += 1;
                    }
                    if k != list.len() {
                        bad = Some(format!("call {} read_chunks delivered {} of {}", ci, k, list.len()));
                    }
                }
                if bad.is_some() {
                    break;
                }
            }
            bad
        });
        let res = match tokio::time::timeout(std::time::Duration::from_secs(20), res).await {
            Ok(r) => r,
            Err(_) => h::hung(&desc),
        };
        seq_calls += plan.len();
        match res {
            Ok(None) => {}
            Ok(Some(w)) => h::emit_oracle_fail("local-reader-call-sequence-not-exact", &format!("{} :: {}", desc, w)),
            Err(_) => h::emit_oracle_fail("local-reader-call-sequence-panicked", &desc),
        }
    }
    // `read_at` of more than 1 MiB (a header with many thousands of descriptors): exactly the bytes asked for,
    // and the file is read no further than the end of the range (the buffer grows in steps and may have spare
    // capacity: it must not be filled from the file)
    let n_big = if thorough { 12 } else { 3 };
    for i in 0..n_big {
        let size = (1usize << 20) + [1usize, 4096 * 37 + 11, 1 << 20, (3 << 20) + 5][i % 4];
        let offset = [0u64, 14, 1000][i % 3];
        let flen = offset as usize + size + (2 << 20);
        let data = h::pattern(flen);
        let mut file = ScriptedFile::new(data.clone(), vec![]);
        file.default_read = Some(*[usize::MAX / 2, 70_000, (1 << 20) + 17].get(i % 3).unwrap());
        let pos = std::sync::Arc::new(std::sync::atomic::AtomicU64::new(0));
        file.pos_probe = Some(pos.clone());
        let desc = format!("io-at-big flen={} offset={} size={}", flen, offset, size);
        println!("TRY\t{}", desc);
        let d2 = data.clone();
        let res = tokio::spawn(async move {
            let mut reader = IoReader::new(file);
            match reader.read_at(offset, size).await {
                Ok(b) => b[..] == d2[offset as usize..offset as usize + size],
                Err(_) => false,
            }
        });
        let ok = match tokio::time::timeout(std::time::Duration::from_secs(60), res).await {
            Ok(r) => r.unwrap_or(false),
            Err(_) => h::hung(&desc),
        };
        if !ok {
            h::emit_oracle_fail("local-read-at-not-exact", &desc);
        }
        let reached = pos.load(std::sync::atomic::Ordering::SeqCst);
        if reached > offset + size as u64 {
            h::emit_oracle_fail(
                "local-read-at-read-beyond-the-requested-range",
                &format!("{} :: file read up to {} (range ends at {})", desc, reached, offset + size as u64),
            );
        }
    }
    h::emit_stat("read_at_larger_than_1_mib", n_big);
    h::emit_stat("cases", n_rand);
    h::emit_stat("call_sequences", n_seq);
    h::emit_stat("calls_in_sequences", seq_calls);
    for (k, v) in kinds {
        h::emit_stat(&format!("kind_{}", k), v);
    }
}
