//! L1 harness: in-process correspondence cases against the real `bitar` library.
//! usage: l1 <suite> <quick|thorough>

use bita_verif_harness as h;

#[global_allocator]
static ALLOC: h::alloc_probe::Counting = h::alloc_probe::Counting;

mod chunking;
mod format;
mod helpers;
mod planner;
mod readers;

fn main() {
    let args: Vec<String> = std::env::args().collect();
    if args.len() < 3 {
        eprintln!("usage: l1 <suite> <quick|thorough>");
        std::process::exit(2);
    }
    let suite = args[1].as_str();
    if suite == "lib-compress" {
        let rt = tokio::runtime::Builder::new_multi_thread().worker_threads(4).enable_all().build().unwrap();
        rt.block_on(helpers::lib_compress(&args[2..]));
        return;
    }
    if suite == "codec" {
        helpers::codec(&args[2..]);
        return;
    }
    let thorough = args[2] == "thorough";
    let seed = h::seed_from_env();
    h::silence_panics();
    let rt = tokio::runtime::Builder::new_multi_thread()
        .worker_threads(2)
        .enable_all()
        .build()
        .unwrap();
    match suite {
        "c07" => rt.block_on(readers::c07(seed, thorough)),
        "c08-http" => rt.block_on(readers::c08_http(seed, thorough)),
        "c08-io" => rt.block_on(readers::c08_io(seed, thorough)),
        "c03" => rt.block_on(planner::c03(seed, thorough)),
        "fmt" => rt.block_on(format::fmt(seed, thorough)),
        "c09" => rt.block_on(chunking::c09(seed, thorough)),
        "c10" => rt.block_on(chunking::c10(seed, thorough)),
        "hash" => rt.block_on(chunking::hash_suite(seed, thorough)),
        _ => {
            eprintln!("unknown suite {}", suite);
            std::process::exit(2);
        }
    }
}
