//! Scripted raw-TCP HTTP/1.1 server on loopback.
//!
//! One connection per request (`Connection: close`), so the k-th request takes the k-th script
//! element whatever the client's connection pool does.  Logs every `Range` header.

use std::collections::VecDeque;
use std::sync::{Arc, Mutex};

use tokio::io::{AsyncReadExt, AsyncWriteExt};
use tokio::net::TcpListener;

#[derive(Clone, Debug)]
pub enum Resp {
    /// close the connection without a response
    Refuse,
    /// whole body, written in fragments of these sizes
    Full(Vec<usize>),
    /// first n bytes, then cut (Content-Length promises everything) or clean end
    Part(usize, Vec<usize>, bool),
    /// misbehaving server: whole body followed by `extra` more bytes (Content-Length counts them)
    Extra(usize),
    /// misbehaving server: status page of exactly the requested length
    ErrorPage(u16),
}

impl Resp {
    pub fn token(&self) -> String {
        let fr = |v: &Vec<usize>| {
            v.iter()
                .map(|x| x.to_string())
                .collect::<Vec<_>>()
                .join(".")
        };
        match self {
            Resp::Refuse => "R".into(),
            Resp::Full(f) => format!("F{}", fr(f)),
            Resp::Part(n, f, cut) => format!("P{}/{}/{}", n, fr(f), if *cut { "c" } else { "e" }),
            Resp::Extra(n) => format!("X{}", n),
            Resp::ErrorPage(c) => format!("Y{}", c),
        }
    }
}

pub struct Shared {
    pub data: Mutex<Arc<Vec<u8>>>,
    pub script: Mutex<VecDeque<Resp>>,
    /// (offset, size) of every Range request received, in order; None if unparsable/missing
    pub log: Mutex<Vec<Option<(u64, u64)>>>,
    pub raw_log: Mutex<Vec<String>>,
}

pub struct Server {
    pub port: u16,
    pub shared: Arc<Shared>,
}

impl Server {
    pub async fn start() -> Server {
        let listener = TcpListener::bind("127.0.0.1:0").await.unwrap();
        let port = listener.local_addr().unwrap().port();
        let shared = Arc::new(Shared {
            data: Mutex::new(Arc::new(Vec::new())),
            script: Mutex::new(VecDeque::new()),
            log: Mutex::new(Vec::new()),
            raw_log: Mutex::new(Vec::new()),
        });
        let sh = shared.clone();
        tokio::spawn(async move {
            loop {
                let (mut sock, _) = match listener.accept().await {
                    Ok(x) => x,
                    Err(_) => continue,
                };
                let sh = sh.clone();
                // Connections are handled strictly one after another (the client under test has
                // one request in flight at a time), so script order = request order.
                let mut head = Vec::new();
                let mut b = [0u8; 1024];
                let mut ok = false;
                loop {
                    match sock.read(&mut b).await {
                        Ok(0) => break,
                        Ok(n) => {
                            head.extend_from_slice(&b[..n]);
                            if head.windows(4).any(|w| w == b"\r\n\r\n") {
                                ok = true;
                                break;
                            }
                        }
                        Err(_) => break,
                    }
                }
                if !ok {
                    continue;
                }
                let head_s = String::from_utf8_lossy(&head).to_string();
                let mut range: Option<(u64, u64)> = None;
                let mut raw = String::new();
                for line in head_s.split("\r\n") {
                    let lower = line.to_ascii_lowercase();
                    if let Some(v) = lower.strip_prefix("range:") {
                        raw = v.trim().to_string();
                        if let Some(v) = raw.strip_prefix("bytes=") {
                            let mut it = v.splitn(2, '-');
                            if let (Some(a), Some(b)) = (it.next(), it.next()) {
                                if let (Ok(a), Ok(b)) = (a.parse::<u64>(), b.parse::<u64>()) {
                                    if b + 1 >= a {
                                        range = Some((a, b + 1 - a));
                                    }
                                }
                            }
                        }
                    }
                }
                sh.log.lock().unwrap().push(range);
                sh.raw_log.lock().unwrap().push(raw);
                let resp = sh
                    .script
                    .lock()
                    .unwrap()
                    .pop_front()
                    .unwrap_or(Resp::Full(vec![]));
                let data = sh.data.lock().unwrap().clone();
                let (off, size) = match range {
                    Some(r) => r,
                    None => (0, data.len() as u64),
                };
                let lo = (off as usize).min(data.len());
                let hi = ((off + size) as usize).min(data.len());
                let body = &data[lo..hi];
                match resp {
                    Resp::Refuse => {
                        drop(sock);
                    }
                    Resp::Full(frags) => {
                        write_resp(&mut sock, 206, body.len(), body, &frags).await;
                    }
                    Resp::Part(n, frags, cut) => {
                        let n = n.min(body.len());
                        let promised = if cut { body.len() } else { n };
                        write_resp(&mut sock, 206, promised, &body[..n], &frags).await;
                    }
                    Resp::Extra(extra) => {
                        let mut b2 = body.to_vec();
                        b2.extend(std::iter::repeat(0xEE).take(extra));
                        write_resp(&mut sock, 206, b2.len(), &b2, &[]).await;
                    }
                    Resp::ErrorPage(code) => {
                        let page = vec![b'!'; body.len()];
                        write_resp(&mut sock, code, page.len(), &page, &[]).await;
                    }
                }
            }
        });
        Server { port, shared }
    }

    pub fn url(&self) -> String {
        format!("http://127.0.0.1:{}/archive", self.port)
    }

    pub fn reset(&self, data: Arc<Vec<u8>>, script: Vec<Resp>) {
        *self.shared.data.lock().unwrap() = data;
        *self.shared.script.lock().unwrap() = script.into();
        self.shared.log.lock().unwrap().clear();
        self.shared.raw_log.lock().unwrap().clear();
    }

    pub fn take_log(&self) -> Vec<Option<(u64, u64)>> {
        std::mem::take(&mut *self.shared.log.lock().unwrap())
    }

    pub fn take_raw_log(&self) -> Vec<String> {
        std::mem::take(&mut *self.shared.raw_log.lock().unwrap())
    }

    pub fn script_left(&self) -> usize {
        self.shared.script.lock().unwrap().len()
    }
}

async fn write_resp(
    sock: &mut tokio::net::TcpStream,
    code: u16,
    content_length: usize,
    body: &[u8],
    frags: &[usize],
) {
    let reason = if code == 206 { "Partial Content" } else { "Error" };
    let head = format!(
        "HTTP/1.1 {} {}\r\nContent-Length: {}\r\nContent-Type: application/octet-stream\r\nConnection: close\r\n\r\n",
        code, reason, content_length
    );
    if sock.write_all(head.as_bytes()).await.is_err() {
        return;
    }
    let _ = sock.flush().await;
    let mut rest = body;
    for &f in frags {
        if rest.is_empty() {
            break;
        }
        let k = f.max(1).min(rest.len());
        if sock.write_all(&rest[..k]).await.is_err() {
            return;
        }
        let _ = sock.flush().await;
        // let the client see this fragment as a body frame of its own
        tokio::time::sleep(std::time::Duration::from_millis(2)).await;
        rest = &rest[k..];
    }
    if !rest.is_empty() {
        let _ = sock.write_all(rest).await;
    }
    let _ = sock.flush().await;
    // graceful close: FIN after everything written, so the client sees all sent bytes
    let _ = sock.shutdown().await;
    // drain anything the client still sends, then drop
    let mut b = [0u8; 64];
    let _ = tokio::time::timeout(std::time::Duration::from_millis(200), sock.read(&mut b)).await;
}
