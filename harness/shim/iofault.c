/* LD_PRELOAD shim: deterministic faults on writes to one path.
 *
 *   IOFAULT_PATH   absolute path of the file to watch
 *   IOFAULT_AT     0-based index of the write() call (on that path) at which the fault happens
 *   IOFAULT_MODE   kill : write the first IOFAULT_BYTES bytes of that write, then SIGKILL ourselves
 *                  fail : that write (and every later one) fails with ENOSPC, nothing written
 *                  tear : write the first IOFAULT_BYTES bytes, report them (short write); every
 *                         later write fails with ENOSPC
 *                  fail-once : only that one write fails with ENOSPC (a transient fault)
 *   IOFAULT_LOG    optional: append "W <index> <offset> <len>" per observed write
 */
#define _GNU_SOURCE
#include <dlfcn.h>
#include <errno.h>
#include <fcntl.h>
#include <signal.h>
#include <stdio.h>
#include <stdlib.h>
#include <string.h>
#include <unistd.h>
#include <pthread.h>

static ssize_t (*real_write)(int, const void *, size_t);
static pthread_mutex_t mu = PTHREAD_MUTEX_INITIALIZER;
static long counter = 0;
static int failing = 0;

static int watched(int fd) {
    const char *want = getenv("IOFAULT_PATH");
    if (!want) return 0;
    char link[64], path[4096];
    snprintf(link, sizeof link, "/proc/self/fd/%d", fd);
    ssize_t n = readlink(link, path, sizeof path - 1);
    if (n <= 0) return 0;
    path[n] = 0;
    return strcmp(path, want) == 0;
}

ssize_t write(int fd, const void *buf, size_t count) {
    if (!real_write) real_write = dlsym(RTLD_NEXT, "write");
    if (!watched(fd)) return real_write(fd, buf, count);
    pthread_mutex_lock(&mu);
    long idx = counter++;
    const char *mode = getenv("IOFAULT_MODE");
    long at = getenv("IOFAULT_AT") ? atol(getenv("IOFAULT_AT")) : -1;
    long nbytes = getenv("IOFAULT_BYTES") ? atol(getenv("IOFAULT_BYTES")) : 0;
    const char *logp = getenv("IOFAULT_LOG");
    if (logp) {
        FILE *f = fopen(logp, "a");
        if (f) { fprintf(f, "W %ld %lld %zu\n", idx, (long long)lseek(fd, 0, SEEK_CUR), count); fclose(f); }
    }
    ssize_t r;
    if (failing) { errno = ENOSPC; r = -1; }
    else if (mode && idx == at) {
        size_t part = (size_t)nbytes < count ? (size_t)nbytes : count;
        if (!strcmp(mode, "kill")) {
            if (part) real_write(fd, buf, part);
            kill(getpid(), SIGKILL);
            for (;;) pause();
        } else if (!strcmp(mode, "fail-once")) {
            errno = ENOSPC; r = -1;
        } else if (!strcmp(mode, "fail")) {
            failing = 1; errno = ENOSPC; r = -1;
        } else { /* tear */
            failing = 1;
            if (part) r = real_write(fd, buf, part); else { errno = ENOSPC; r = -1; }
        }
    } else r = real_write(fd, buf, count);
    pthread_mutex_unlock(&mu);
    return r;
}
