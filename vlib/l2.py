"""L2 harness: drives the real `bita` binary (built from /repo's working tree with the hooks on) as a
subprocess, observes it from outside (exit status, files, strace, an LD_PRELOAD write-fault shim,
a scripted HTTP server) and compares with the Lean model (`clone`, `compress` requests) and with
the properties' own oracles.

Every suite returns dict(cases=[(request, implementation answer)], stats={}, oracle=[(what, request)], notes=[]).
Every random choice comes from random.Random(seed): a disagreement replays exactly.
"""
import hashlib
import os
import random
import shutil
import subprocess
import tempfile
import time

from . import core

BITA = None


def bita():
    return core.bita_bin()


def fnv1a(b):
    h = 2166136261
    for x in b:
        h = ((h ^ x) * 16777619) & 0xFFFFFFFF
    return h


def digest(b):
    return "%d:%d" % (len(b), fnv1a(b))


def hx(b):
    return b.hex() if b else "-"


class Work:
    """A scratch directory under /verif/work, removed on close."""

    def __init__(self, name):
        os.makedirs(core.WORK, exist_ok=True)
        self.dir = tempfile.mkdtemp(prefix="l2-%s-" % name, dir=core.WORK)
        self.n = 0

    def path(self, name):
        return os.path.join(self.dir, name)

    def fresh(self, suffix=""):
        self.n += 1
        return os.path.join(self.dir, "f%d%s" % (self.n, suffix))

    def write(self, data, suffix=""):
        p = self.fresh(suffix)
        with open(p, "wb") as f:
            f.write(data)
        return p

    def close(self):
        shutil.rmtree(self.dir, ignore_errors=True)


def classify(rc):
    if rc == 0:
        return "ok"
    if rc == 101:
        return "panic"
    if rc in (134, -6):
        return "abort"
    if rc is None:
        return "hang"
    if rc < 0:
        return "signal%d" % (-rc)
    return "err"


def run_bita(args, stdin_data=None, env=None, timeout=300, preload=None, strace_log=None, cwd=None):
    e = dict(os.environ)
    e["RUST_BACKTRACE"] = "0"
    e.pop("RUST_LOG", None)
    if env:
        e.update(env)
    if preload:
        e["LD_PRELOAD"] = preload
    cmd = [bita()] + args
    if strace_log:
        cmd = ["strace", "-f", "-qq", "-y", "-s", "0", "-e",
               "trace=open,openat,creat,unlink,unlinkat,rename,renameat,renameat2,truncate,ftruncate,write,pwrite64,read,pread64,lseek,mkdir,mkdirat,link,linkat,symlink,symlinkat",
               "-o", strace_log] + cmd
    try:
        p = subprocess.run(cmd, input=stdin_data, stdout=subprocess.PIPE, stderr=subprocess.PIPE, env=e,
                           timeout=timeout, cwd=cwd, stdin=None if stdin_data is not None else subprocess.DEVNULL)
        return classify(p.returncode), p.returncode, p.stdout, p.stderr
    except subprocess.TimeoutExpired:
        # (the limit is generous on purpose: one run of a thorough tier on a machine that was busy with four other
        # rehearsals once saw a 1 KiB clone under strace exceed 120 s; 150 repetitions of that very command took
        # at most 0.4 s each - see DESIGN.md section 5)
        try:
            load = open("/proc/loadavg").read().split()[0]
        except OSError:
            load = "?"
        return "hang", None, b"", ("no result after %d s (load average %s)" % (timeout, load)).encode()


# ------------------------------------------------------------------------------ scenario generation

def gen_source(rng, max_len=6000):
    kind = rng.randrange(10)
    if kind == 0:
        return b""
    if kind == 1:
        return bytes([rng.randrange(256)])
    n = rng.randrange(1, max_len)
    if kind == 2:
        return bytes(n)
    if kind == 3:
        return bytes([rng.randrange(256)]) * n
    if kind in (4, 5):
        # repetitive blocks: duplicates in the source
        block = rng.randbytes(rng.randrange(8, 200))
        out = b""
        while len(out) < n:
            out += block if rng.random() < 0.6 else rng.randbytes(rng.randrange(1, 100))
        return out[:n]
    if kind == 6:
        # low entropy text-ish
        return bytes(rng.choice(b"ab \n") for _ in range(n))
    return rng.randbytes(n)


def gen_config(rng, small=True):
    """Returns (cli args, model config token, window)."""
    if rng.random() < 0.12:
        n = rng.choice([1, 2, 7, 64, 100, 1000])
        return ["--fixed-size", str(n)], "F:%d" % n, 0
    algo = rng.choice(["RollSum", "BuzHash"])
    bits = rng.randrange(1, 9 if small else 16)
    avg = 1 << (bits + 1)
    if rng.random() < 0.4:
        # a requested average that is not a power of two is rounded DOWN to one (documented)
        avg += rng.randrange(1, avg)
    w = rng.choice([1, 2, 3, 4, 8, 16, 31, 64])
    mn = rng.choice([0, 1, avg // 4, avg // 2, avg, min(avg, w), min(avg, w + 1)])
    mx = max(avg, w, mn) + rng.choice([0, 1, avg, 4 * avg, 16 * avg])
    args = ["--hash-chunking", algo, "--avg-chunk-size", str(avg), "--min-chunk-size", str(mn),
            "--max-chunk-size", str(mx), "--rolling-window-size", str(w)]
    tok = "%s:%d:%d:%d:%d" % ("R" if algo == "RollSum" else "B", bits, mn, mx, w)
    return args, tok, w


def edit_source(rng, src):
    """A related byte string: insertions, deletions, moved and duplicated blocks."""
    b = bytearray(src)
    for _ in range(rng.randrange(1, 5)):
        if not b:
            b += rng.randbytes(rng.randrange(1, 50))
            continue
        i = rng.randrange(len(b))
        k = rng.randrange(4)
        if k == 0:
            b[i:i] = rng.randbytes(rng.randrange(1, 80))
        elif k == 1:
            del b[i:i + rng.randrange(1, 80)]
        elif k == 2:
            j = rng.randrange(len(b))
            blk = b[i:i + rng.randrange(1, 300)]
            b[j:j] = blk
        else:
            j = rng.randrange(len(b))
            n = rng.randrange(1, 300)
            blk = bytes(b[i:i + n])
            del b[i:i + n]
            j = min(j, len(b))
            b[j:j] = blk
    return bytes(b)


def compress_cli(work, src, cfg_args, hash_len=64, compression="none", level=None, buffered=None, md=None,
                 via_stdin=False, out=None, extra=None, timeout=120):
    """Run `bita compress`; returns (class, archive bytes or None, stderr)."""
    out = out or work.fresh(".cba")
    args = ["compress"]
    stdin_data = None
    if via_stdin:
        stdin_data = src
    else:
        args += ["-i", work.write(src, ".src")]
    args += cfg_args + ["--hash-length", str(hash_len), "--compression", compression]
    if level is not None:
        args += ["--compression-level", str(level)]
    if buffered is not None:
        args += ["--buffered-chunks", str(buffered)]
    for k, v in (md or []):
        args += ["--metadata-value", k, v]
    args += (extra or []) + [out]
    cls, rc, so, se = run_bita(args, stdin_data=stdin_data, timeout=timeout)
    data = None
    if os.path.exists(out):
        with open(out, "rb") as f:
            data = f.read()
    return cls, data, se, out


def clone_cli(work, archive_path, out_path, seeds=(), seed_output=False, verify_output=False, force=False,
              pin=None, stdin_seed=None, blockdev=False, extra=None, strace_log=None, preload=None, env=None, timeout=300, cwd=None):
    args = ["clone"]
    if seed_output:
        args.append("--seed-output")
    if verify_output:
        args.append("--verify-output")
    if force:
        args.append("--force-create")
    if pin is not None:
        args += ["--verify-header", pin]
    for s in seeds:
        args += ["--seed", s]
    stdin_data = None
    if stdin_seed is not None:
        args += ["--seed", "-"]
        stdin_data = stdin_seed
    args += (extra or []) + [archive_path, out_path]
    e = dict(env or {})
    if blockdev:
        e["BITA_VERIF_TREAT_OUTPUT_AS_BLOCK_DEV"] = "1"
    return run_bita(args, stdin_data=stdin_data, env=e, timeout=timeout, strace_log=strace_log, preload=preload, cwd=cwd)


def read_file(p):
    try:
        with open(p, "rb") as f:
            return f.read()
    except FileNotFoundError:
        return None


class Result:
    def __init__(self):
        self.cases, self.stats, self.oracle, self.notes = [], {}, [], []

    def stat(self, k, n=1):
        self.stats[k] = self.stats.get(k, 0) + n

    def case(self, req, ans):
        self.cases.append((req, ans))

    def fail(self, what, req):
        self.oracle.append((what, req))

    def note(self, text):
        self.notes.append(text)

    def as_dict(self):
        return dict(cases=self.cases, stats=self.stats, oracle=self.oracle, notes=self.notes)


def data_token(b):
    return "h" + b.hex() if b else "-"


# ------------------------------------------------------------------------------ C01 / C12: writers

def lib_compress(work, src, cfg_tok, hash_len, compression, level, buffered, md, frag, before=()):
    """The library writer (create_archive) through the harness helper; returns archive bytes.
    `before`: jobs (src, cfg, hash_len, compression, level) the same process carries out first."""
    inp = work.write(src, ".src")
    out = work.fresh(".lib.cba")
    mdtok = ",".join("%s:%s" % (k.encode().hex() or "-", v.encode().hex() or "-") for k, v in (md or [])) or "-"
    args = [os.path.join(core.TARGET, "debug", "l1"), "lib-compress"]
    for (bsrc, bcfg, bhl, bcomp, blevel) in before:
        args += [work.write(bsrc, ".src"), work.fresh(".lib0.cba"), bcfg, str(bhl), bcomp, str(blevel if blevel is not None else 6), "2", "-", "0"]
    args += [inp, out, cfg_tok, str(hash_len),
            compression, str(level if level is not None else 6), str(buffered or 4), mdtok, str(frag)]
    p = subprocess.run(args, stdout=subprocess.PIPE, stderr=subprocess.PIPE, env=core.env_offline(), timeout=300)
    if p.returncode != 0:
        return None, p.stderr.decode(errors="replace")[-300:]
    return read_file(out), ""


def equal_size_chunks(W, rng, want=3, tries=400):
    """Chunks whose brotli output (bita's own encoder, level 6 and 11) is exactly as long as the chunk:
    the corner where the writers' stored-bytes rule and the reader's raw rule must agree."""
    found = []
    for level in (6, 11):
        cands = []
        for _ in range(tries):
            k = rng.randrange(30, 90)
            m = rng.randrange(10, 45)
            cands.append(rng.randbytes(k) + bytes([rng.choice([0, 0, 255, 32])]) * m)
        tab = brotli_table(W, cands, level)
        for c in cands:
            if len(tab[c]) == len(c):
                found.append((level, c))
    rng.shuffle(found)
    return found[:want]


def c01_roundtrip(seed, tier):
    """compress (CLI and library) then clone (CLI): output == source; archive bytes vs the model."""
    rng = random.Random(seed * 1000003 + 1)
    R = Result()
    W = Work("c01")
    try:
        # the equal-size corner of the compression rule, and a rolling window larger than 11771 bytes
        corner = equal_size_chunks(W, rng, want=4 if tier == "thorough" else 2)
        R.stat("equal_size_corner_chunks_found", len(corner))
        special = []
        for level, c in corner:
            src = rng.randbytes(len(c)) + c + rng.randbytes(len(c) * 2) + c
            special.append((src, ["--fixed-size", str(len(c))], "F:%d" % len(c), "brotli", level))
        big = rng.randbytes(70000) + bytes(30000) + rng.randbytes(50000)
        special.append((big, ["--hash-chunking", "RollSum", "--avg-chunk-size", "32KiB", "--min-chunk-size", "0",
                              "--max-chunk-size", "64KiB", "--rolling-window-size", "16KiB"], "R:14:0:65536:16384", "none", None))
        special.append((big, ["--hash-chunking", "BuzHash", "--avg-chunk-size", "32KiB", "--min-chunk-size", "20000",
                              "--max-chunk-size", "64KiB", "--rolling-window-size", "12000B"], "B:14:20000:65536:12000", "brotli", 4))
        # chunks larger than one write call of the runtime takes (2 MiB): fixed 3 MiB blocks, and a
        # non-zero constant run under a large maximum
        huge = rng.randbytes(3 << 20) + bytes([0xAA]) * ((3 << 20) + 4097)
        special.append((huge, ["--fixed-size", "3MiB"], "F:3145728", "none", None))
        special.append((bytes([0x55]) * ((5 << 20) + 3), ["--hash-chunking", "RollSum", "--avg-chunk-size", "4MiB", "--min-chunk-size", "16KiB",
                        "--max-chunk-size", "6MiB", "--rolling-window-size", "64"], "R:21:16384:6291456:64", "brotli", 1))
        # small chunks, then chunks of 2 MiB (a constant run cut at the maximum), then small ones again, stored as they are
        mixed = rng.randbytes(100000) + bytes([7]) * (5 << 20) + rng.randbytes(50000)
        special.append((mixed, ["--hash-chunking", "RollSum", "--avg-chunk-size", "64KiB", "--min-chunk-size", "16KiB",
                        "--max-chunk-size", "2MiB", "--rolling-window-size", "64"], "R:15:16384:2097152:64", "none", None))
        # two different 16-byte blocks whose Blake2b-512 hashes share their first 4 bytes, archived with
        # --hash-length 4 (KNOWN FINDING: the writers tell chunks apart by the full hash, the reader by the
        # truncated one - the clone reports success and repeats the first block)
        coll_src = b"C17-block-010282" + b"C17-block-095313"
        cls_c, arch_c, se_c, apath_c = compress_cli(W, coll_src, ["--fixed-size", "16"], 4, "none", None, 2)
        if cls_c == "ok":
            outp = W.fresh(".out")
            c2, rc, so, se2 = clone_cli(W, apath_c, outp)
            R.stat("truncated_hash_collision_cases")
            if c2 == "ok" and read_file(outp) != coll_src:
                R.fail("roundtrip-output-differs-from-source", "cli-compress truncated-hash-collision F:16 hl=4 src=%s" % digest(coll_src))
        for src, cfg_args, cfg_tok, compression, level in special:
            for writer in ("cli", "lib"):
                desc = "%s-compress special %s %s/%s src=%s" % (writer, cfg_tok, compression, level, digest(src))
                if writer == "cli":
                    cls, arch, se, apath = compress_cli(W, src, cfg_args, 16, compression, level, 4)
                else:
                    arch, err = lib_compress(W, src, cfg_tok, 16, compression, level, 4, [], 0)
                    cls = "ok" if arch is not None else "err"
                    apath = W.write(arch or b"", ".cba")
                R.stat("special_cases")
                if cls != "ok":
                    R.fail("compress-%s" % cls, desc)
                    continue
                outp = W.fresh(".out")
                c2, rc, so, se2 = clone_cli(W, apath, outp)
                if c2 != "ok":
                    R.fail("clone-of-own-archive-%s" % c2, desc + " :: " + se2.decode(errors="replace")[-200:].replace("\n", " | "))
                elif read_file(outp) != src:
                    R.fail("roundtrip-output-differs-from-source", desc)
        n = 400 if tier == "thorough" else 60
        for i in range(n):
            src = gen_source(rng, 20000 if i % 7 == 0 else 3000)
            cfg_args, cfg_tok, _w = gen_config(rng)
            hash_len = rng.choice([4, 8, 16, 32, 64, rng.randrange(4, 65)])
            compression = rng.choice(["none", "none", "brotli"])
            level = rng.randrange(1, 12) if compression == "brotli" else None
            buffered = rng.choice([1, 2, 3, 8, 64])
            md = [("k%d" % j, rng.choice(["", "v", "héllo", "x" * 40])) for j in range(rng.randrange(0, 3))]
            via_stdin = rng.random() < 0.3
            cls, arch, se, arch_path = compress_cli(W, src, cfg_args, hash_len, compression, level, buffered, md, via_stdin)
            req_desc = "cli-compress %s hl=%d %s/%s buf=%d stdin=%s src=%s" % (
                cfg_tok, hash_len, compression, level, buffered, via_stdin, digest(src))
            R.stat("compress_" + cls)
            R.stat("source_empty" if not src else "source_len_lt_64" if len(src) < 64 else "source_other")
            if cls != "ok" or arch is None:
                R.fail("compress-%s" % cls, req_desc + " :: " + se.decode(errors="replace")[-200:].replace("\n", " | "))
                continue
            # temp file gone, exactly one new file
            tmp = os.path.splitext(arch_path)[0] + "..tmp"
            if os.path.exists(tmp):
                R.fail("temp-file-left-behind", req_desc)
            # the library writer must produce the very same bytes
            lib, err = lib_compress(W, src, cfg_tok, hash_len, compression, level, rng.choice([1, 2, 5, 16]), md,
                                    rng.choice([0, 1, 7, 4096]))
            if lib is None:
                R.fail("library-compress-failed", req_desc + " :: " + err)
            elif lib != arch:
                R.fail("cli-and-library-archives-differ", req_desc)
            # model: byte-exact archive (digest) when no codec is involved
            if compression == "none" and len(src) <= 4000:
                mdtok = ",".join("%s:%s" % (hx(k.encode()), hx(v.encode())) for k, v in sorted(dict(md).items())) or "-"
                for writer in ("cli", "lib"):
                    R.case("compress %s %s %d - %s %s -" % (writer, cfg_tok, hash_len, mdtok, data_token(src)),
                           "archive=%s" % digest(arch))
            # clone it (plain), from the local file
            outp = W.fresh(".out")
            c2, rc, so, se2 = clone_cli(W, arch_path, outp, verify_output=rng.random() < 0.5)
            got = read_file(outp)
            R.stat("clone_" + c2)
            if c2 != "ok":
                R.fail("clone-of-own-archive-%s" % c2, req_desc + " :: " + se2.decode(errors="replace")[-200:].replace("\n", " | "))
            elif got != src:
                R.fail("roundtrip-output-differs-from-source", req_desc)
            # ... and over what an earlier clone of another (longer / shorter) image left at the same path,
            # with --force-create: exactly the source's length and bytes (with and without --verify-output)
            if c2 == "ok" and len(src) < 300000:
                for older in (rng.randbytes(len(src) + rng.randrange(1, 5000)), src[:len(src) // 2] + b"?"):
                    outf = W.write(older, ".out")
                    c5, rc5, so5, se5 = clone_cli(W, arch_path, outf, force=True, verify_output=rng.random() < 0.5)
                    R.stat("clones_with_force_over_an_existing_file")
                    if c5 != "ok":
                        R.fail("clone-of-own-archive-%s" % c5, req_desc + " (--force-create over an existing %d byte file)" % len(older))
                    elif read_file(outf) != src:
                        R.fail("roundtrip-output-differs-from-source", req_desc + " (--force-create over an existing %d byte file: output has %d bytes, source %d)" % (
                            len(older), len(read_file(outf)), len(src)))
                    os.unlink(outf)
            # the archive records the true size and checksum: via `bita info`
            c3, rc3, so3, se3 = run_bita(["info", arch_path])
            text = (so3 + se3).decode(errors="replace")
            if c3 != "ok":
                R.fail("info-of-own-archive-%s" % c3, req_desc)
            else:
                want_sum = hashlib.blake2b(src).hexdigest()
                if want_sum not in text or ("(%d bytes)" % len(src) not in text and "Source size: %d bytes" % len(src) not in text):
                    R.fail("archive-does-not-record-source-size-or-checksum", req_desc)
            # model clone of the real archive (small, uncompressed)
            if compression == "none" and len(arch) <= 6000:
                R.case("clone-ro - - %s - - -" % hx(arch), "result=%s out=%s" % (c2, digest(got or b"")))
        R.stat("cases", n)
    finally:
        W.close()
    return R.as_dict()


# ------------------------------------------------------------------------------ strace parsing

import re

_LINE = re.compile(r"^(\d+)\s+(\w+)\((.*)\)\s+=\s+(-?\d+|\?)(.*)$")


def parse_strace(path):
    """Returns a list of (pid, syscall, args, ret) with unfinished/resumed lines stitched."""
    pending = {}
    events = []
    try:
        lines = open(path, errors="replace").read().split("\n")
    except FileNotFoundError:
        return events
    for ln in lines:
        m = re.match(r"^(\d+)\s+(.*)$", ln)
        if not m:
            continue
        pid, rest = m.group(1), m.group(2)
        if rest.endswith("<unfinished ...>"):
            pending[pid] = rest[: -len("<unfinished ...>")].rstrip()
            continue
        r = re.match(r"^<\.\.\. (\w+) resumed>\s*(.*)$", rest)
        if r and pid in pending:
            rest = pending.pop(pid) + r.group(2)
        m2 = _LINE.match(pid + " " + rest)
        if not m2:
            continue
        ret = m2.group(4)
        events.append((pid, m2.group(2), m2.group(3), None if ret == "?" else int(ret)))
    return events


def _unescape(s):
    """strace -xx string literal -> bytes"""
    out = bytearray()
    i = 0
    while i < len(s):
        if s[i] == "\\" and i + 3 < len(s) + 1 and s[i + 1] == "x":
            out.append(int(s[i + 2:i + 4], 16))
            i += 4
        else:
            out.append(ord(s[i]))
            i += 1
    return bytes(out)


def file_ops(events, path):
    """Operations on one path: opens with flags, writes (offset, data or length), reads (offset, length),
    truncates, unlinks, renames.  Positions are reconstructed from lseek/read/write on the fd."""
    ops = []
    pos = {}   # fd text -> position
    tag = "<%s>" % path
    for pid, sc, args, ret in events:
        if sc in ("open", "openat", "creat") and '"%s"' % path in args:
            flags = re.findall(r"O_[A-Z_]+", args)
            ops.append(("open", sorted(flags), ret))
            if ret is not None and ret >= 0:
                pos[str(ret)] = 0
        elif sc in ("unlink", "unlinkat") and '"%s"' % path in args:
            ops.append(("unlink", ret))
        elif sc in ("rename", "renameat", "renameat2") and '"%s"' % path in args:
            ops.append(("rename", args, ret))
        elif sc == "truncate" and '"%s"' % path in args:
            ops.append(("truncate", int(args.split(",")[-1]), ret))
        elif tag in args.split(",")[0]:
            fd = args.split("<")[0].strip()
            if sc == "lseek":
                if ret is not None and ret >= 0:
                    pos[fd] = ret
            elif sc == "write":
                m = re.search(r'"((?:[^"\\]|\\.)*)"', args)
                data = _unescape(m.group(1)) if m else None
                n = ret if ret is not None else 0
                if ret is not None and ret >= 0:
                    ops.append(("write", pos.get(fd, 0), n, data[:n] if data is not None and len(data) >= n else None))
                    pos[fd] = pos.get(fd, 0) + n
                else:
                    ops.append(("write-failed", pos.get(fd, 0), ret))
            elif sc == "pwrite64":
                off = int(args.split(",")[-1])
                ops.append(("write", off, ret or 0, None))
            elif sc == "read":
                if ret is not None and ret > 0:
                    ops.append(("read", pos.get(fd, 0), ret))
                    pos[fd] = pos.get(fd, 0) + ret
            elif sc == "pread64":
                ops.append(("read", int(args.split(",")[-1]), ret or 0))
            elif sc == "ftruncate":
                ops.append(("truncate", int(args.split(",")[-1]), ret))
    return ops


def merge_writes(ops):
    """Consecutive writes that continue each other are one write_all."""
    out = []
    for op in ops:
        if op[0] != "write":
            continue
        _, off, n, data = op
        if out and out[-1][0] + out[-1][1] == off and out[-1][3]:
            po, pn, pd, _c = out[-1]
            out[-1] = [po, pn + n, (pd + data) if (pd is not None and data is not None) else None, True]
        else:
            out.append([off, n, data, True])
    return [(o, n, d) for o, n, d, _ in out]


def touched_paths(events):
    """Every path opened for writing / created / truncated / removed / renamed / linked: {path: set(intents)}."""
    res = {}
    for pid, sc, args, ret in events:
        if ret is not None and ret < 0:
            continue
        if sc in ("open", "openat", "creat"):
            m = re.search(r'"([^"]*)"', args)
            if not m:
                continue
            flags = set(re.findall(r"O_[A-Z_]+", args))
            if sc == "creat" or flags & {"O_WRONLY", "O_RDWR", "O_CREAT", "O_TRUNC", "O_APPEND"}:
                res.setdefault(m.group(1), set()).add("write-open:" + "|".join(sorted(flags & {"O_WRONLY", "O_RDWR", "O_CREAT", "O_EXCL", "O_TRUNC", "O_APPEND"})))
        elif sc in ("unlink", "unlinkat", "rename", "renameat", "renameat2", "truncate", "mkdir", "mkdirat", "link", "linkat", "symlink", "symlinkat"):
            for m in re.finditer(r'"([^"]*)"', args):
                res.setdefault(m.group(1), set()).add(sc)
    return res


# ------------------------------------------------------------------------------ scenario helper

def ensure_shim():
    so = os.path.join(core.TARGET, "iofault.so")
    src = os.path.join(core.VERIF, "harness", "shim", "iofault.c")
    if not os.path.exists(so) or os.path.getmtime(so) < os.path.getmtime(src):
        os.makedirs(core.TARGET, exist_ok=True)
        subprocess.run(["cc", "-shared", "-fPIC", "-O1", "-o", so, src, "-ldl", "-lpthread"], check=True)
    return so


SMALL_CFGS = [
    (["--hash-chunking", "RollSum", "--avg-chunk-size", "64", "--min-chunk-size", "16", "--max-chunk-size", "512", "--rolling-window-size", "16"], "R:5:16:512:16"),
    (["--hash-chunking", "BuzHash", "--avg-chunk-size", "32", "--min-chunk-size", "8", "--max-chunk-size", "256", "--rolling-window-size", "8"], "B:4:8:256:8"),
    (["--hash-chunking", "RollSum", "--avg-chunk-size", "16", "--min-chunk-size", "0", "--max-chunk-size", "64", "--rolling-window-size", "4"], "R:3:0:64:4"),
    (["--fixed-size", "100"], "F:100"),
]


def make_archive(W, rng, src, compression="none", hash_len=None, cfg=None):
    cfg_args, cfg_tok = cfg or rng.choice(SMALL_CFGS)
    hash_len = hash_len or rng.choice([8, 16, 64])
    cls, arch, se, path = compress_cli(W, src, cfg_args, hash_len, compression, 6 if compression == "brotli" else None, rng.choice([1, 4, 16]))
    if cls != "ok":
        raise core.Failure("bita compress failed while preparing a scenario: %s" % se.decode(errors="replace")[-300:])
    return arch, path, cfg_tok, hash_len


# ------------------------------------------------------------------------------ C12: determinism

def c12_determinism(seed, tier):
    rng = random.Random(seed * 1000003 + 12)
    R = Result()
    W = Work("c12")
    try:
        n = 60 if tier == "thorough" else 12
        runs = 8 if tier == "thorough" else 5
        for i in range(n):
            src = gen_source(rng, 200000 if i % 4 == 0 else 8000)
            cfg_args, cfg_tok, _ = gen_config(rng)
            hash_len = rng.choice([4, 16, 64])
            compression = rng.choice(["none", "brotli", "brotli"])
            level = rng.randrange(1, 12) if compression == "brotli" else None
            archives = []
            desc = "compress %s hl=%d %s/%s src=%s" % (cfg_tok, hash_len, compression, level, digest(src))
            for r in range(runs):
                buffered = [1, 2, 3, 8, 64, 16, 5, 32][r % 8]
                env = {}
                if r % 3 == 1:
                    env["TOKIO_WORKER_THREADS"] = "1"
                elif r % 3 == 2:
                    env["TOKIO_WORKER_THREADS"] = "16"
                out = W.fresh(".cba")
                args = ["compress"] + cfg_args + ["--hash-length", str(hash_len), "--compression", compression,
                                                   "--buffered-chunks", str(buffered)]
                if level is not None:
                    args += ["--compression-level", str(level)]
                stdin_data = None
                if r % 2 == 1:
                    stdin_data = src            # delivered through a pipe
                else:
                    args += ["-i", W.write(src, ".src")]
                args.append(out)
                prefix = ["taskset", "-c", "0"] if r % 4 == 3 else []
                e = dict(os.environ, RUST_BACKTRACE="0", **env)
                p = subprocess.run(prefix + [bita()] + args, input=stdin_data, stdout=subprocess.PIPE, stderr=subprocess.PIPE, env=e,
                                   stdin=None if stdin_data is not None else subprocess.DEVNULL, timeout=300)
                R.stat("runs")
                if p.returncode != 0:
                    R.fail("compress-%s" % classify(p.returncode), desc)
                    continue
                archives.append(read_file(out))
                os.unlink(out)
            # other ways the same bytes can be delivered: a named pipe given with -i, and -i /dev/stdin fed by a pipe
            for how in ("fifo", "devstdin"):
                out = W.fresh(".cba")
                args = ["compress"] + cfg_args + ["--hash-length", str(hash_len), "--compression", compression, "--buffered-chunks", "4"]
                if level is not None:
                    args += ["--compression-level", str(level)]
                e = dict(os.environ, RUST_BACKTRACE="0")
                try:
                    if how == "fifo":
                        fifo = W.fresh(".fifo")
                        os.mkfifo(fifo)
                        pr = subprocess.Popen([bita()] + args + ["-i", fifo, out], stdout=subprocess.PIPE, stderr=subprocess.PIPE,
                                              stdin=subprocess.DEVNULL, env=e)

                        def feed(path=fifo, data=src):
                            try:
                                with open(path, "wb") as fw:
                                    for o in range(0, len(data), 4099):
                                        fw.write(data[o:o + 4099])
                                        fw.flush()
                            except OSError:
                                pass
                        import threading
                        th = threading.Thread(target=feed, daemon=True)
                        th.start()
                        so_, se_ = pr.communicate(timeout=300)
                        th.join(timeout=10)
                        rc_ = pr.returncode
                    else:
                        p2 = subprocess.run([bita()] + args + ["-i", "/dev/stdin", out], input=src, stdout=subprocess.PIPE,
                                            stderr=subprocess.PIPE, env=e, timeout=300)
                        rc_ = p2.returncode
                except subprocess.TimeoutExpired:
                    pr.kill()
                    R.fail("compress-hang", desc + " delivery=" + how)
                    continue
                R.stat("runs_delivery_" + how)
                if rc_ != 0:
                    R.fail("compress-%s" % classify(rc_), desc + " delivery=" + how)
                    continue
                archives.append(read_file(out))
                os.unlink(out)
            # a run with a history on disk: what an interrupted or failed earlier compress leaves behind - a temp
            # file (longer than the new chunk data) and an output (longer than the new archive), overwritten with -f
            out = W.fresh(".cba")
            with open(out, "wb") as fo:
                fo.write(rng.randbytes(len(src) + 100000))
            stale = os.path.splitext(out)[0] + "..tmp"
            with open(stale, "wb") as fo:
                fo.write(rng.randbytes(len(src) + 70000))
            args = ["compress"] + cfg_args + ["--hash-length", str(hash_len), "--compression", compression, "--buffered-chunks", "4", "-f"]
            if level is not None:
                args += ["--compression-level", str(level)]
            p3 = subprocess.run([bita()] + args + ["-i", W.write(src, ".src"), out], stdout=subprocess.PIPE, stderr=subprocess.PIPE,
                                stdin=subprocess.DEVNULL, env=dict(os.environ, RUST_BACKTRACE="0"), timeout=300)
            R.stat("runs_over_leftovers_of_an_earlier_run")
            if p3.returncode != 0:
                R.fail("compress-%s" % classify(p3.returncode), desc + " over leftovers (-f, stale temp file)")
            else:
                archives.append(read_file(out))
            for leftover in (out, stale):
                if os.path.exists(leftover):
                    os.unlink(leftover)
            lib, err = lib_compress(W, src, cfg_tok, hash_len, compression, level, 3, [], rng.choice([0, 1, 13, 65536]))
            if lib is not None:
                archives.append(lib)
            # the library writer with a history: the same archive made as the SECOND one of a process that first
            # wrote an archive with another compression level / other parameters
            if compression == "brotli" and i % 2 == 0:
                other = 1 if (level or 6) > 6 else 11
                lib2, err2 = lib_compress(W, src, cfg_tok, hash_len, compression, level, 3, [], 0,
                                          before=[(rng.randbytes(5000) + bytes(3000), "F:1000", 8, "brotli", other)])
                R.stat("library_archives_written_after_another_one")
                if lib2 is not None:
                    archives.append(lib2)
                else:
                    R.fail("compress-err", desc + " (second archive of a process) :: " + (err2 or "")[-150:])
            if len(set(archives)) > 1:
                R.fail("archives-differ-between-runs", desc + " sizes=%r" % sorted(set(len(a) for a in archives)))
            R.stat("inputs")
            if compression == "none" and len(src) <= 4000 and archives:
                R.case("compress cli %s %d - - %s -" % (cfg_tok, hash_len, data_token(src)), "archive=%s" % digest(archives[0]))
    finally:
        W.close()
    return R.as_dict()


# ------------------------------------------------------------------------------ C14: refusals

def pin_with_full_seeds(W, R, rng):
    """A wrong --verify-header value when the seeds already hold every chunk (a roll-back attempt with the old image at
    hand): still refused, the output not created / left as it was."""
    src = rng.randbytes(2500)
    arch, apath, cfg_tok, hl = make_archive(W, rng, src, cfg=(["--fixed-size", "500"], "F:500"))
    hc = pyfmt_header_checksum(arch)
    wrong = ("%02x" % (hc[0] ^ 0x80)) + hc.hex()[2:]
    for how in ("seed-file", "seed-stdin", "seed-output"):
        outp = W.fresh(".out")
        prior = None
        kw = {}
        if how == "seed-file":
            kw["seeds"] = [W.write(src, ".seed")]
        elif how == "seed-stdin":
            kw["stdin_seed"] = src
        else:
            prior = src
            with open(outp, "wb") as f:
                f.write(prior)
            kw["seed_output"] = True
        cls, rc, so, se = clone_cli(W, apath, outp, pin=wrong, **kw)
        after = read_file(outp)
        req = "cli-clone wrong --verify-header, every chunk available from %s" % how
        R.stat("wrong_pin_with_seeds_that_hold_everything")
        if cls == "ok":
            R.fail("refusal-expected-but-clone-succeeded", req)
        elif cls != "err":
            R.fail("refusal-ended-in-%s" % cls, req)
        if after != prior:
            R.fail("refused-operation-changed-the-output", req)
        if os.path.exists(outp):
            os.unlink(outp)


def c14_refusals(seed, tier):
    rng = random.Random(seed * 1000003 + 14)
    R = Result()
    W = Work("c14")
    try:
        reps = 12 if tier == "thorough" else 1
        for rep in range(reps):
            src = gen_source(rng, 3000)
            if len(src) < 50:
                src = rng.randbytes(300)      # the table's "device 10 bytes smaller than the source" needs a source to be smaller than
            arch, apath, cfg_tok, hl = make_archive(W, rng, src)
            hc = pyfmt_header_checksum(arch)
            bad = bytearray(arch)
            bad[20 + rng.randrange(10)] ^= 0x10           # inside the dictionary: header checksum fails
            bad_path = W.write(bytes(bad), ".bad.cba")
            junk_path = W.write(rng.randbytes(200), ".junk.cba")
            hs_ = pyfmt_header_size(arch)
            cut_path = W.write(arch[:hs_ - rng.choice([1, 32, 64])], ".cut.cba")     # the file ends inside the header checksum
            for out_state in ("absent", "regular-short", "regular-long", "blockdev-big", "blockdev-small"):
                for flags in ("none", "force", "seed-output"):
                    for akind in ("valid", "corrupt-header", "not-an-archive", "cut-in-checksum", "pin-mismatch", "pin-prefix", "pin-permuted", "pin-overlong", "pin-ok"):
                        outp = W.fresh(".out")
                        prior = None
                        if out_state == "regular-short":
                            prior = rng.randbytes(max(1, len(src) // 3))
                        elif out_state == "regular-long":
                            prior = rng.randbytes(len(src) + 500)
                        elif out_state == "blockdev-big":
                            prior = rng.randbytes(len(src) + 64)
                        elif out_state == "blockdev-small":
                            prior = rng.randbytes(max(1, len(src) - 10))
                        if prior is not None:
                            with open(outp, "wb") as f:
                                f.write(prior)
                        blockdev = out_state.startswith("blockdev")
                        ap = {"valid": apath, "corrupt-header": bad_path, "not-an-archive": junk_path, "cut-in-checksum": cut_path}.get(akind, apath)
                        pin = None
                        if akind == "pin-mismatch":
                            pin = ("%02x" % (hc[0] ^ 1)) + hc.hex()[2:]
                        elif akind == "pin-prefix":
                            pin = hc.hex()[:rng.choice([0, 2, 8, 126])]
                        elif akind == "pin-permuted":
                            # right length, same multiset of bytes (differences cancel under xor / sum folds)
                            pin = rng.choice([hc[::-1], hc[1:] + hc[:1], hc[:10][::-1] + hc[10:]]).hex()
                            if pin == hc.hex():
                                pin = (hc[1:] + hc[:1]).hex()
                        elif akind == "pin-overlong":
                            pin = hc.hex() + rng.choice(["00", "ff" * 3, hc.hex()])
                        elif akind == "pin-ok":
                            pin = hc.hex()
                        cls, rc, so, se = clone_cli(W, ap, outp, seed_output=(flags == "seed-output"), force=(flags == "force"),
                                                    pin=pin, blockdev=blockdev)
                        after = read_file(outp)
                        # the property's expectation
                        archive_refusal = akind in ("corrupt-header", "not-an-archive", "cut-in-checksum", "pin-mismatch", "pin-prefix", "pin-permuted", "pin-overlong")
                        exists_refusal = prior is not None and flags == "none"
                        small_dev = out_state == "blockdev-small"
                        refused = archive_refusal or exists_refusal or small_dev
                        req = "cli-clone out=%s flags=%s archive=%s" % (out_state, flags, akind)
                        R.stat("refused" if refused else "proceeds")
                        if refused:
                            if cls == "ok":
                                R.fail("refusal-expected-but-clone-succeeded", req)
                            elif cls != "err":
                                R.fail("refusal-ended-in-%s" % cls, req)
                            if after != prior:
                                R.fail("refused-operation-changed-the-output", req)
                            if archive_refusal and prior is None and after is not None:
                                R.fail("refused-for-archive-reasons-but-output-created", req)
                        else:
                            if cls != "ok":
                                R.fail("clone-should-proceed-but-%s" % cls, req + " :: " + se.decode(errors="replace")[-150:].replace("\n", "|"))
                            elif blockdev:
                                if after is None or after[:len(src)] != src or len(after) != len(prior):
                                    R.fail("block-device-output-wrong", req)
                            elif after != src:
                                R.fail("output-differs-from-source", req)
                        # the model's verdict on the same table row
                        R.case("cli-clone %s %s %s" % (out_state, flags, akind),
                               "result=%s output=%s" % ("ok" if cls == "ok" else "refused" if cls == "err" else cls,
                                                        "untouched" if after == prior else "source" if (after is not None and after[:len(src)] == src) else "other"))
                        if os.path.exists(outp):
                            os.unlink(outp)
            # the archive of an EMPTY source is its header only: cut anywhere inside the checksum it is not an archive,
            # and an existing output must keep its content (it would be "cloned" to zero bytes otherwise)
            earch, epath, _t, _h = make_archive(W, rng, b"")
            for k in (1, 17, 64):
                ecut = W.write(earch[:len(earch) - k], ".ecut.cba")
                for flags in ("none", "force", "seed-output"):
                    for existing in (True, False):
                        outp = W.fresh(".out")
                        prior = rng.randbytes(300) if existing else None
                        if existing:
                            with open(outp, "wb") as f:
                                f.write(prior)
                        cls, rc, so, se = clone_cli(W, ecut, outp, seed_output=(flags == "seed-output"), force=(flags == "force"))
                        after = read_file(outp)
                        req = "cli-clone header-only archive cut %d bytes short, output %s, flags=%s" % (k, "exists" if existing else "absent", flags)
                        R.stat("cut_header_only_archive_rows")
                        if cls == "ok":
                            R.fail("refusal-expected-but-clone-succeeded", req)
                        elif cls != "err":
                            R.fail("refusal-ended-in-%s" % cls, req)
                        if after != prior:
                            R.fail("refused-operation-changed-the-output" if existing else "refused-for-archive-reasons-but-output-created", req)
                        if os.path.exists(outp):
                            os.unlink(outp)
            # the output path is a dangling symbolic link: without --force-create / --seed-output the clone is refused
            # (the path exists) and the link's target is not created
            for flags in ("none",):
                target = W.fresh(".target")
                link = W.fresh(".link")
                os.symlink(target, link)
                cls, rc, so, se = clone_cli(W, apath, link)
                R.stat("dangling_symlink_rows")
                if cls == "ok" or os.path.exists(target):
                    R.fail("refusal-expected-but-clone-succeeded" if cls == "ok" else "refused-operation-changed-the-output",
                           "cli-clone onto a dangling symbolic link, no --force-create")
                elif cls != "err":
                    R.fail("refusal-ended-in-%s" % cls, "cli-clone onto a dangling symbolic link")
                for q in (link, target):
                    if os.path.lexists(q):
                        os.unlink(q)
            # block devices of every size below a source that consists of repeated chunks (unique data < source)
            blk_a, blk_b = rng.randbytes(100), rng.randbytes(100)
            rsrc = (blk_a + blk_b) * 4
            rarch, rapath, _tok, _hl = make_archive(W, rng, rsrc, cfg=(["--fixed-size", "100"], "F:100"))
            for dev_size in (50, 150, 200, 300, 450, 799, 800, 900):
                for flags in ("force", "seed-output"):
                    outp = W.fresh(".dev")
                    prior = rng.randbytes(dev_size)
                    with open(outp, "wb") as f:
                        f.write(prior)
                    cls, rc, so, se = clone_cli(W, rapath, outp, seed_output=(flags == "seed-output"), force=(flags == "force"), blockdev=True)
                    after = read_file(outp)
                    req = "cli-clone block device of %d bytes, source of %d bytes with repeated chunks, %s" % (dev_size, len(rsrc), flags)
                    R.stat("device_size_rows")
                    if dev_size < len(rsrc):
                        if cls == "ok":
                            R.fail("refusal-expected-but-clone-succeeded", req)
                        if after != prior:
                            R.fail("refused-operation-changed-the-output", req)
                    elif cls != "ok" or after is None or after[:len(rsrc)] != rsrc or len(after) != dev_size:
                        R.fail("block-device-output-wrong", req)
                    if os.path.exists(outp):
                        os.unlink(outp)
            if rep == 0:
                pin_with_full_seeds(W, R, rng)
                # an archive with a valid header checksum whose dictionary lacks a required part (no chunker parameters,
                # no compression entry): refused when it is opened - nothing created, an existing output left alone under -f
                from . import pyfmt as _pf
                pa_ = _pf.parse_archive(arch)
                for part in ("chunk_compression", "chunker_params"):
                    dd_ = _pf.decode_dictionary(pa_["dict_bytes"])
                    dd_[part] = None
                    crafted = _pf.build_header(_pf.encode_dictionary(dd_)) + arch[pa_["header_size"]:]
                    cpath = W.write(crafted, ".nopart.cba")
                    for prior_ in (None, rng.randbytes(400)):
                        outp = W.fresh(".out")
                        if prior_ is not None:
                            with open(outp, "wb") as f:
                                f.write(prior_)
                        cls, rc, so, se = clone_cli(W, cpath, outp, force=prior_ is not None)
                        req = "cli-clone of an archive whose dictionary has no %s (%s)" % (part, "output absent" if prior_ is None else "--force-create over an existing output")
                        R.stat("dictionaries_without_a_required_part")
                        if cls == "ok":
                            R.fail("refusal-expected-but-clone-succeeded", req)
                        elif cls != "err":
                            R.fail("refusal-ended-in-%s" % cls, req)
                        if read_file(outp) != prior_:
                            R.fail("refused-operation-changed-the-output" if prior_ is not None else "refused-for-archive-reasons-but-output-created", req)
                        if os.path.exists(outp):
                            os.unlink(outp)
            # the same two rows on REAL block devices (loop devices, when one can be attached): smaller than the
            # source - refused, content untouched; large enough - cloned, nothing beyond the source length touched
            if rep == 0:
                dsrc = rng.randbytes(4096 + 700)
                darch, dapath, dcfg, dhl = make_archive(W, rng, dsrc)
                for dev_size, refused in ((4096, True), (8192, False)):
                    prior = rng.randbytes(dev_size)
                    backing = W.write(prior, ".blk")
                    try:
                        pl = subprocess.run(["losetup", "-f", "--show", backing], stdout=subprocess.PIPE, stderr=subprocess.PIPE, timeout=20)
                        dev = pl.stdout.decode().strip() if pl.returncode == 0 else None
                    except (OSError, subprocess.TimeoutExpired):
                        dev = None
                    if not dev or not os.path.exists(dev):
                        R.stat("real_block_device_rows_skipped_no_loop_device")
                        break
                    try:
                        cls, rc, so, se = clone_cli(W, dapath, dev, force=True)
                        with open(dev, "rb") as fdev:
                            after = fdev.read()
                        req = "cli-clone --force-create onto a real block device (loop) of %d bytes, source of %d bytes" % (dev_size, len(dsrc))
                        R.stat("real_block_device_rows")
                        if refused:
                            if cls == "ok":
                                R.fail("refusal-expected-but-clone-succeeded", req)
                            if after != prior:
                                R.fail("refused-operation-changed-the-output", req)
                        elif cls != "ok" or after[:len(dsrc)] != dsrc or after[len(dsrc):] != prior[len(dsrc):]:
                            R.fail("block-device-output-wrong", req)
                    finally:
                        subprocess.run(["losetup", "-d", dev], stdout=subprocess.PIPE, stderr=subprocess.PIPE)
            # compress: existing output without / with --force-create; invalid input
            for exists in (False, True):
                for force in (False, True):
                    outp = W.fresh(".cba")
                    prior = None
                    if exists:
                        prior = rng.randbytes(100)
                        with open(outp, "wb") as f:
                            f.write(prior)
                    cls, data, se, _ = compress_cli(W, src, SMALL_CFGS[0][0], 64, "none", out=outp, extra=["--force-create"] if force else None)
                    req = "cli-compress exists=%s force=%s" % (exists, force)
                    refused = exists and not force
                    tmp = os.path.splitext(outp)[0] + "..tmp"
                    if refused:
                        if cls == "ok" or read_file(outp) != prior:
                            R.fail("compress-refusal-changed-the-output", req)
                        if os.path.exists(tmp):
                            R.fail("refused-compress-left-temp-file", req)
                    elif cls != "ok":
                        R.fail("compress-should-proceed-but-%s" % cls, req)
                    R.case("cli-compress %s %s" % ("present" if exists else "absent", "force" if force else "none"),
                           "result=%s output=%s" % ("ok" if cls == "ok" else "refused", "untouched" if read_file(outp) == prior else "archive"))
                    R.stat("compress_rows")
    finally:
        W.close()
    return R.as_dict()


def pyfmt_header_size(arch):
    from . import pyfmt
    return pyfmt.parse_archive(arch)["header_size"]


def pyfmt_header_checksum(arch):
    from . import pyfmt
    return pyfmt.parse_archive(arch)["header_checksum"]


# ------------------------------------------------------------------------------ C16: files touched

def _interesting(paths, workdir):
    """Write-intent operations; everything outside the working directory that is only opened read-only never shows up here."""
    return {p: v for p, v in paths.items() if not p.startswith("/dev/") and not p.startswith("/proc/")}


def c16_files(seed, tier):
    rng = random.Random(seed * 1000003 + 16)
    R = Result()
    W = Work("c16")
    try:
        n = 24 if tier == "thorough" else 3
        for i in range(n):
            src = gen_source(rng, 5000) or b"y" * 500
            arch, apath, cfg_tok, hl = make_archive(W, rng, src, compression=rng.choice(["none", "brotli"]))
            seed1 = W.write(edit_source(rng, src), ".seed1")
            seed2 = W.write(rng.randbytes(700), ".seed2")
            srv = None
            modes = ["plain", "seeds", "stdin-seed", "in-place", "in-place+seeds", "verify", "pin", "http", "http+seed", "force", "blockdev",
                     "verify-mismatch", "verify-mismatch-in-place", "plain-debug", "seeds-trace"]
            # a well-formed archive whose recorded source checksum is wrong: --verify-output fails at the very end
            from . import pyfmt
            pa = pyfmt.parse_archive(arch)
            dd = pa["dictionary"]
            dd["source_checksum"] = bytes([dd["source_checksum"][0] ^ 1]) + dd["source_checksum"][1:]
            bad_hdr = pyfmt.build_header(pyfmt.encode_dictionary(dd))
            bad_path = W.write(bad_hdr + arch[pa["header_size"]:], ".badsum.cba")
            for mode in modes:
                sub = os.path.join(W.dir, "m%d_%s" % (i, mode.replace("+", "_")))
                os.makedirs(sub)
                outp = os.path.join(sub, "output.img")
                before = set(os.listdir(sub))
                kw = {}
                archive_arg = apath
                if mode.startswith("verify-mismatch"):
                    archive_arg = bad_path
                    kw["verify_output"] = True
                    if mode.endswith("in-place"):
                        kw["seed_output"] = True
                        with open(outp, "wb") as f:
                            f.write(edit_source(rng, src))
                        before = set(os.listdir(sub))
                if mode in ("in-place", "in-place+seeds", "force", "blockdev"):
                    with open(outp, "wb") as f:
                        f.write(edit_source(rng, src) + (b"\0" * (len(src) + 100) if mode == "blockdev" else b""))
                    before = set(os.listdir(sub))
                if mode in ("seeds", "in-place+seeds", "http+seed", "seeds-trace"):
                    kw["seeds"] = [seed1, seed2]
                if mode.endswith("-debug") or mode.endswith("-trace"):
                    # the global verbosity flag; run from the mode's own (otherwise empty) directory, where anything a
                    # more talkative run might leave shows in the listing
                    kw["extra"] = ["-v"] if mode.endswith("-debug") else ["-vv"]
                    kw["cwd"] = sub
                if mode == "stdin-seed":
                    kw["stdin_seed"] = edit_source(rng, src)
                if mode.startswith("in-place"):
                    kw["seed_output"] = True
                if mode == "verify":
                    kw["verify_output"] = True
                if mode == "pin":
                    kw["pin"] = pyfmt_header_checksum(arch).hex()
                if mode == "force":
                    kw["force"] = True
                if mode == "blockdev":
                    kw["blockdev"] = True
                    kw["seed_output"] = True
                if mode.startswith("http"):
                    from . import httpd
                    srv = httpd.Server(arch)
                    archive_arg = srv.url()
                log = os.path.join(W.dir, "strace_%d_%s.log" % (i, mode.replace("+", "_")))
                cls, rc, so, se = clone_cli(W, archive_arg, outp, strace_log=log, **kw)
                if srv:
                    srv.close()
                    srv = None
                ev = parse_strace(log)
                tp = _interesting(touched_paths(ev), W.dir)
                req = "cli-clone-files mode=%s" % mode
                R.stat("clone_modes")
                if mode.startswith("verify-mismatch"):
                    if cls != "err":
                        R.fail("verify-output-mismatch-ended-in-%s" % cls, req)
                    if not os.path.exists(outp):
                        R.fail("clone-removed-the-output", req)
                elif cls != "ok":
                    R.fail("clone-%s-in-mode" % cls, req + " :: " + se.decode(errors="replace")[-150:].replace("\n", "|"))
                others = {p: sorted(v) for p, v in tp.items() if p != outp}
                if others:
                    R.fail("clone-touched-a-file-other-than-the-output", req + " :: " + repr(others)[:300])
                if any(not x.startswith("write-open") for x in tp.get(outp, [])):
                    R.fail("clone-removed-renamed-or-truncated-by-path", req + " :: " + repr(sorted(tp.get(outp))))
                after = set(os.listdir(sub))
                if after - before - {"output.img"}:
                    R.fail("clone-left-extra-files", req + " :: " + repr(sorted(after - before)))
                intents = ";".join(sorted(tp.get(outp, [])))
                if not mode.startswith("verify-mismatch"):
                    R.case("cli-clone-files %s" % mode.replace("-debug", "").replace("-trace", ""), "output=%s others=%d" % (intents, len(others)))
                os.unlink(log)
            if i == 0:
                # an in-place update that has to park more than 16 MiB in memory (the default maximum chunk size) while it
                # re-orders: two 20 MiB chunks swapped; nothing but the output may be opened for writing, no scratch file
                # (TMPDIR is an empty directory of this row, so that one would show in its listing too)
                bs = 20 << 20
                a_, b_ = rng.randbytes(bs), rng.randbytes(bs)
                bsrc = a_ + b_
                barch, bapath, bcfg, bhl = make_archive(W, rng, bsrc, cfg=(["--fixed-size", str(bs)], "F:%d" % bs))
                sub = os.path.join(W.dir, "big_swap")
                os.makedirs(os.path.join(sub, "tmp"))
                outp = os.path.join(sub, "output.img")
                with open(outp, "wb") as f:
                    f.write(b_ + a_)
                del a_, b_
                log = os.path.join(W.dir, "strace_big_swap.log")
                cls, rc, so, se = clone_cli(W, bapath, outp, seed_output=True, strace_log=log, env={"TMPDIR": os.path.join(sub, "tmp")}, cwd=sub)
                tp = _interesting(touched_paths(parse_strace(log)), W.dir)
                req = "cli-clone-files mode=in-place, two 20 MiB chunks swapped"
                R.stat("clone_modes")
                R.stat("in_place_with_more_than_16_MiB_parked")
                if cls != "ok" or read_file(outp) != bsrc:
                    R.fail("clone-%s-in-mode" % cls, req)
                others = {p_: sorted(v) for p_, v in tp.items() if p_ != outp}
                if others:
                    R.fail("clone-touched-a-file-other-than-the-output", req + " :: " + repr(others)[:300])
                if os.listdir(os.path.join(sub, "tmp")) or set(os.listdir(sub)) != {"tmp", "output.img"}:
                    R.fail("clone-left-extra-files", req + " :: " + repr(sorted(os.listdir(sub))))
                os.unlink(log)
                os.unlink(outp)
                del bsrc
            # compress: exactly one new file, temp created then removed - also for an empty source and
            # for output names whose temp name `Path::with_extension` derives differently
            names = ["out.cba", "archive", "a.b.c", ".hidden", "x.tar.gz", "d.ir/out", ".h.x", "trail."]
            cmodes = [("file-input", "out.cba"), ("stdin-input", "out.cba"), ("force", "out.cba"),
                      ("empty-file-input", "out.cba"), ("empty-stdin", names[(i + 1) % len(names)]),
                      ("file-input", names[(2 * i + 1) % len(names)]), ("force", names[(2 * i + 2) % len(names)]),
                      ("empty-file-input", names[(2 * i + 3) % len(names)]),
                      # what a failed earlier run leaves behind: a regular file at the temp path (it is reused and removed)
                      ("stale-temp-file-input", names[(3 * i) % len(names)]),
                      # the most talkative level, run from the (otherwise empty) directory of the archive
                      ("file-input-trace", "out.cba")]
            if i == 0:
                # KNOWN FINDING: the temp file is opened by name with create+truncate - something already at that
                # path is reused (here: a dangling symbolic link, whose target then stays behind as a second new file)
                sub = os.path.join(W.dir, "ctmp_%d" % i)
                os.makedirs(sub)
                target = os.path.join(sub, "elsewhere.bin")
                os.symlink(target, os.path.join(sub, "out..tmp"))
                before = set(os.listdir(sub))
                cls, rc, so, se = run_bita(["compress", "-i", W.write(src or b"x" * 200, ".src"), "--compression", "none"] + SMALL_CFGS[0][0] +
                                           [os.path.join(sub, "out.cba")])
                after = set(os.listdir(sub))
                R.stat("compress_temp_path_preexisting")
                if cls == "ok" and (after - before) != {"out.cba"}:
                    R.fail("compress-did-not-leave-exactly-the-archive",
                           "cli-compress-files temp-path-is-a-dangling-symlink :: new entries %r" % sorted(after - before))
            for j, (mode, oname) in enumerate(cmodes):
                sub = os.path.join(W.dir, "c%d_%d_%s" % (i, j, mode))
                os.makedirs(os.path.join(sub, os.path.dirname(oname)))
                outp = os.path.join(sub, oname)
                if mode == "force":
                    open(outp, "wb").write(b"old")
                if mode.startswith("stale-temp"):
                    b_ = os.path.basename(oname)
                    k_ = b_.rfind(".")
                    open(os.path.join(os.path.dirname(outp), (b_[:k_] if k_ > 0 else b_) + "..tmp"), "wb").write(rng.randbytes(len(src) + 3000))
                    R.stat("compress_over_a_stale_temp_file")
                listing = lambda: set(os.path.relpath(os.path.join(dp, f), sub) for dp, _, fs_ in os.walk(sub) for f in fs_)
                before = listing()
                log = os.path.join(W.dir, "strace_c%d_%d.log" % (i, j))
                args = ["compress"] + SMALL_CFGS[i % len(SMALL_CFGS)][0] + ["--compression", "none"]
                data = b"" if mode.startswith("empty") else src
                inp = W.write(data, ".src")
                stdin_data = None
                if mode.endswith("stdin-input") or mode == "empty-stdin":
                    stdin_data = data
                else:
                    args += ["-i", inp]
                if mode == "force":
                    args.append("--force-create")
                if mode.endswith("-trace"):
                    args.append("-vv")
                args.append(outp)
                cls, rc, so, se = run_bita(args, stdin_data=stdin_data, strace_log=log, cwd=sub if mode.endswith("-trace") else None)
                ev = parse_strace(log)
                tp = _interesting(touched_paths(ev), W.dir)
                # the documented temp name, derived independently of the model: the last extension of the
                # file name (a leading dot does not start an extension) replaced by ".tmp" after a dot
                base = os.path.basename(oname)
                k = base.rfind(".")
                stem = base[:k] if k > 0 else base
                tmp = os.path.join(os.path.dirname(outp), stem + "..tmp")
                req = "cli-compress-files mode=%s output=%s" % (mode, oname)
                R.stat("compress_modes")
                R.stat("compress_" + ("empty_source" if mode.startswith("empty") else "nonempty_source"))
                if cls != "ok":
                    R.fail("compress-%s" % cls, req)
                after = listing()
                if after - before - {oname} or oname not in after:
                    R.fail("compress-did-not-leave-exactly-the-archive", req + " :: " + repr(sorted(after)))
                others = {p: sorted(v) for p, v in tp.items() if p not in (outp, tmp)}
                if others:
                    R.fail("compress-touched-unexpected-files", req + " :: " + repr(others)[:300])
                if "unlink" not in " ".join(tp.get(tmp, [])):
                    R.fail("temp-file-not-removed", req + " :: " + repr(sorted(tp.get(tmp, []))))
                R.case("cli-compress-files %s %s" % ("force" if mode == "force" else "empty" if mode.startswith("empty") else "plain", oname),
                       "output=%s temp=%s others=%d tmpname=%s left=%d" % (
                           ";".join(sorted(tp.get(outp, []))), ";".join(sorted(tp.get(tmp, []))), len(others),
                           ",".join(sorted(os.path.basename(q) for q, v in tp.items() if any(x.startswith("unlink") for x in v))) or "-",
                           len(after - before - {oname})))
                os.unlink(log)
    finally:
        W.close()
    return R.as_dict()


# ------------------------------------------------------------------------------ C13: the output's write interface

def _source_chunks(arch):
    """(offset, length) of every source chunk in order, read from the archive with the independent decoder."""
    from . import pyfmt
    a = pyfmt.parse_archive(arch)
    d = a["dictionary"]
    out, off = [], 0
    for i in d["rebuild_order"]:
        n = d["chunk_descriptors"][i]["source_size"]
        out.append((off, n))
        off += n
    return out


def _bursts(writes):
    """Merge consecutive write system calls that continue where the previous one ended."""
    out = []
    for off, n in writes:
        if n == 0:
            continue
        if out and out[-1][0] + out[-1][1] == off:
            out[-1] = (out[-1][0], out[-1][1] + n)
        else:
            out.append((off, n))
    return out


def c13_writes(seed, tier):
    """Every write system call on the output of a CLI clone, observed with strace: whole source chunks at
    their source offsets, nothing twice, nothing at or beyond the source length, nothing where the prior
    output already held the chunk; chunk-level write sequence compared with the model's write log."""
    rng = random.Random(seed * 1000003 + 13)
    R = Result()
    W = Work("c13")
    try:
        n = 400 if tier == "thorough" else 26
        for i in range(n):
            big = (i % 13 == 5)
            shifted_big = (i % 13 == 9)
            compression = "none"
            if shifted_big:
                # a chunk of several MiB that the in-place update has to move towards the end by LESS than its own
                # size (4 KiB inserted in front of the old content): source and destination of the move overlap
                old_content = rng.randbytes((9 << 20) + rng.randrange(1, 5000))
                src = rng.randbytes(4096) + old_content
                cfg = (["--hash-chunking", "RollSum", "--avg-chunk-size", "2MiB", "--min-chunk-size", "2MiB",
                        "--max-chunk-size", "8MiB", "--rolling-window-size", "64"], "R:20:2097152:8388608:64")
                arch, apath, cfg_tok, hl = make_archive(W, rng, src, cfg=cfg)
                R.stat("moves_of_a_large_chunk_onto_itself")
                big = True
            elif big:
                # chunks larger than what one write system call of the runtime takes (2 MiB)
                bs = rng.choice([3 << 20, (2 << 20) + 1, 5 << 20])
                src = rng.randbytes(bs + rng.randrange(1, bs)) if i % 2 else bytes([0xAA]) * (bs * 2 + 17)
                cfg = (["--fixed-size", str(bs)], "F:%d" % bs) if i % 2 else (
                    ["--hash-chunking", "RollSum", "--avg-chunk-size", "4MiB", "--min-chunk-size", "16KiB",
                     "--max-chunk-size", "6MiB", "--rolling-window-size", "64"], "R:21:16384:6291456:64")
                arch, apath, cfg_tok, hl = make_archive(W, rng, src, cfg=cfg)
                R.stat("chunks_larger_than_one_write_call")
            else:
                src = gen_source(rng, 5000)
                if len(src) < 2:
                    src = rng.randbytes(700)
                compression = rng.choice(["none", "none", "brotli"])
                arch, apath, cfg_tok, hl = make_archive(W, rng, src, hash_len=rng.choice([4, 8, 64]), compression=compression)
            chunks = _source_chunks(arch)
            starts = set(o for o, _ in chunks)
            ends = set(o + k for o, k in chunks)
            mode = ["new", "force-over-longer", "seeds", "in-place", "in-place+seeds", "in-place-rotated", "blockdev"][i % 7] if not big \
                else ("in-place-shifted" if shifted_big else rng.choice(["new", "in-place-rotated"]))
            prior = None
            seeds = []
            if mode == "force-over-longer":
                prior = rng.randbytes(len(src) + rng.randrange(1, 3000))
            elif mode in ("in-place", "in-place+seeds", "blockdev"):
                prior = edit_source(rng, src) if rng.random() < 0.8 else src
                if mode == "blockdev" and len(prior) < len(src):
                    prior += bytes(len(src) - len(prior) + rng.randrange(0, 40))
            elif mode == "in-place-shifted":
                prior = old_content
            elif mode == "in-place-rotated":
                k = chunks[len(chunks) // 2][0] if len(chunks) > 1 else len(src) // 2
                prior = src[k:] + src[:k]
            if mode in ("seeds", "in-place+seeds"):
                seeds = [edit_source(rng, src), src[len(src) // 3:]][:rng.randrange(1, 3)]
            outp = W.fresh(".out")
            if prior is not None:
                with open(outp, "wb") as f:
                    f.write(prior)
            in_place = mode.startswith("in-place") or mode == "blockdev"
            log = W.fresh(".strace")
            cls, rc, so, se = clone_cli(W, apath, outp, seeds=[W.write(x, ".seed") for x in seeds], seed_output=in_place,
                                        force=(mode == "force-over-longer"), blockdev=(mode == "blockdev"), strace_log=log)
            got = read_file(outp)
            ops = file_ops(parse_strace(log), outp)
            writes = [(o[1], o[2]) for o in ops if o[0] == "write"]
            req = "cli-clone-writes mode=%s cfg=%s hl=%d src=%s prior=%s" % (mode, cfg_tok, hl, digest(src), digest(prior or b""))
            R.stat("clones")
            R.stat("mode_" + mode)
            R.stat("write_calls", len(writes))
            if cls != "ok":
                R.fail("clone-%s" % cls, req + " :: " + se.decode(errors="replace")[-200:].replace("\n", "|"))
                continue
            if (got[:len(src)] if mode == "blockdev" else got) != src:
                R.fail("output-differs-from-source", req)
            if any(o[0] == "write-failed" for o in ops):
                R.note("a write failed in " + req)
            bursts = _bursts(writes)
            bad = [b for b in bursts if b[0] not in starts or (b[0] + b[1]) not in ends]
            if bad:
                R.fail("write-is-not-whole-source-chunks-at-their-offsets", req + " :: %r" % bad[:3])
            if any(o + k > len(src) for o, k in writes):
                R.fail("write-at-or-beyond-source-length", req)
            cover = sorted(bursts)
            if any(cover[j][0] + cover[j][1] > cover[j + 1][0] for j in range(len(cover) - 1)):
                R.fail("location-written-twice", req)
            if in_place and prior is not None and prior == src and writes:
                R.fail("output-already-held-the-source-but-was-written", req)
            if mode == "new" and _bursts(cover) != _bursts(sorted(chunks)) and len(src) > 0:
                R.fail("new-output-not-written-exactly-once-everywhere", req)
            # chunk-level write sequence vs the model's write log (same scenario; in-order split at chunk boundaries)
            if not big and compression == "none" and len(arch) + len(prior or b"") + sum(len(x) for x in seeds) <= 12000 \
                    and all(len(x) > 0 for x in seeds):
                seq = []
                for o, k in bursts:
                    for co, ck in chunks:
                        if o <= co and co + ck <= o + k:
                            seq.append((co, ck))
                flags = ("s" if in_place else "") + ("b" if mode == "blockdev" else "") or "-"
                mreq = "clone-w %s - %s %s %s -" % (flags, hx(arch), hx(prior or b""), ",".join(hx(x) for x in seeds) or "-")
                R.case(mreq, None)
                R.cases[-1] = (mreq, "result=ok out=%s writes=%s" % (
                    digest(got), ",".join("%d.%s" % (o, digest(src[o:o + k])) for o, k in seq) or "-"))
            os.unlink(log)
    finally:
        W.close()
    return R.as_dict()


# ------------------------------------------------------------------------------ C07: the wire of a whole clone

def c07_wire(seed, tier):
    """Every range request of a whole CLI clone over HTTP, as received by a scripted server, in order: one for
    the pre-header, one for the rest of the header, then one per maximal run of adjacent MISSING chunks
    (theorem clone_over_http_requests_runs_of_missing_chunks).  Fixed-size blocks, so that which chunks a seed
    or the prior output holds is known without a chunker (independent oracle); the same scenario is replayed
    by the model through its remote reader (`clone-rf` with flag h)."""
    from . import httpd, pyfmt
    rng = random.Random(seed * 1000003 + 7)
    R = Result()
    W = Work("c07w")
    try:
        n = 150 if tier == "thorough" else 20
        for i in range(n):
            bs = rng.choice([64, 100, 256, 500])
            nb = rng.randrange(3, 13)
            compressible = i % 3 == 2
            blocks = []
            for k in range(nb):
                if compressible and rng.random() < 0.7:
                    unit = rng.randbytes(rng.choice([1, 2, 5]))
                    b = bytes([k]) + (unit * bs)[:bs - 1]
                else:
                    b = bytes([k]) + rng.randbytes(bs - 1)
                blocks.append(b)
            if i % 4 == 1:
                blocks.append(bytes([nb]) + rng.randbytes(rng.randrange(0, bs - 1)))      # a short last chunk
            src = b"".join(blocks)
            compression = "brotli" if compressible else "none"
            arch, apath, cfg_tok, hl = make_archive(W, rng, src, cfg=(["--fixed-size", str(bs)], "F:%d" % bs),
                                                    compression=compression, hash_len=rng.choice([8, 64]))
            a = pyfmt.parse_archive(arch)
            descs = a["dictionary"]["chunk_descriptors"]
            cdo, hs = a["chunk_data_offset"], a["header_size"]
            if len(descs) != len(blocks):
                raise core.Failure("scenario construction: %d descriptors for %d distinct blocks" % (len(descs), len(blocks)))
            shape = ["some", "some", "some", "none", "all", "alternate"][i % 6]
            if shape == "none":
                present = []
            elif shape == "all":
                present = list(range(len(blocks)))
            elif shape == "alternate":
                present = list(range(1, len(blocks), 2))
            else:
                present = [k for k in range(len(blocks)) if rng.random() < 0.5]
            short = [k for k in present if len(blocks[k]) < bs]
            full = [k for k in present if len(blocks[k]) == bs]
            rng.shuffle(full)
            where = ["seed", "in-place", "both", "stdin"][i % 4]
            cutk = rng.randrange(0, len(full) + 1) if where == "both" else (len(full) if where == "in-place" else 0)
            prior_ids, seed_ids = full[:cutk], full[cutk:]
            junk = lambda: bytes([255]) + rng.randbytes(bs - 1)
            prior = b"".join(blocks[k] if rng.random() < 0.85 else blocks[k] + junk() for k in prior_ids)
            seed_data = b"".join(blocks[k] if rng.random() < 0.85 else junk() + blocks[k] for k in seed_ids)
            for k in short:                                   # a short chunk is found only at the end of a stream
                if where == "in-place":
                    prior += blocks[k]
                else:
                    seed_data += blocks[k]
            in_place = where in ("in-place", "both")
            outp = W.fresh(".out")
            if in_place:
                with open(outp, "wb") as f:
                    f.write(prior)
            else:
                prior = b""
            seeds = [seed_data] if seed_data and where != "stdin" else []
            stdin_seed = seed_data if seed_data and where == "stdin" else None
            srv = httpd.Server(arch)
            cls, rc, so, se = clone_cli(W, srv.url(), outp, seeds=[W.write(x, ".seed") for x in seeds], seed_output=in_place,
                                        stdin_seed=stdin_seed)
            raw_log = list(srv.log)
            srv.close()
            wire = [r for r in raw_log if r is not None]
            got = read_file(outp)
            req = "cli-clone-http bs=%d blocks=%d present=%r where=%s %s hl=%d src=%s" % (
                bs, len(blocks), sorted(present), where, compression, hl, digest(src))
            R.stat("clones")
            R.stat("present_" + shape)
            R.stat("held_by_" + where)
            if cls != "ok":
                R.fail("clone-over-http-%s" % cls, req + " :: " + se.decode(errors="replace")[-200:].replace("\n", "|"))
                continue
            if got != src:
                R.fail("clone-over-http-output-differs-from-source", req)
            if len(wire) != len(raw_log):
                R.fail("request-without-a-range", req)
            # independent oracle: maximal runs of adjacent missing descriptors, in descriptor order
            missing = [(cdo + cd["archive_offset"], cd["archive_size"]) for k, cd in enumerate(descs) if k not in present]
            runs = []
            for o, k in missing:
                if runs and runs[-1][0] + runs[-1][1] == o:
                    runs[-1] = (runs[-1][0], runs[-1][1] + k)
                else:
                    runs.append((o, k))
            expect = [(0, 14), (14, hs - 14)] + runs
            R.stat("chunk_requests", len(runs))
            R.stat("missing_chunks", len(missing))
            if wire != expect:
                R.fail("wire-is-not-header-then-one-request-per-run-of-adjacent-missing-chunks",
                       req + " :: wire=%r expected=%r" % (wire[:8], expect[:8]))
            all_seeds = [x for x in [stdin_seed] + seeds if x]
            if len(arch) + len(prior) + sum(len(x) for x in all_seeds) <= 14000:
                table = []
                for cd, b in zip(descs, blocks):
                    st = arch[cdo + cd["archive_offset"]: cdo + cd["archive_offset"] + cd["archive_size"]]
                    if len(st) != len(b):
                        table.append("%s:%s" % (hx(st), hx(b)))
                mreq = "clone-rf %sh - %s %s %s %s" % ("s" if in_place else "", hx(arch), hx(prior),
                                                       ",".join(hx(x) for x in all_seeds) or "-", ",".join(table) or "-")
                R.case(mreq, None)
                R.cases[-1] = (mreq, "result=ok out=%s fetch=%s wire=%s" % (
                    digest(got), ",".join("%d:%d" % r for r in missing) or "-", ",".join("%d:%d" % r for r in wire)))
    finally:
        W.close()
    return R.as_dict()


# ------------------------------------------------------------------------------ C02 / C06: seeds and fetches

def _strace_reads(log, path):
    ev = parse_strace(log)
    return [(o[1], o[2]) for o in file_ops(ev, path) if o[0] == "read"]


def merge_ranges(rs):
    """Adjacent / continuing reads merged (a chunk may be read in several read() calls)."""
    out = []
    for o, n in rs:
        if out and out[-1][0] + out[-1][1] == o:
            out[-1] = (out[-1][0], out[-1][1] + n)
        else:
            out.append((o, n))
    return out


def split_at(ranges, cuts):
    """Split merged ranges at descriptor boundaries so that they can be compared with descriptor ranges."""
    res = []
    for o, n in ranges:
        pts = sorted(c for c in cuts if o < c < o + n)
        start = o
        for c in pts:
            res.append((start, c - start))
            start = c
        res.append((start, o + n - start))
    return res


def c02_seeds(seed, tier):
    """CLI clones with 0-4 seeds of every kind (and stdin), plain and in place, local and http;
    output == source; model comparison of result, output, and what is fetched (C06)."""
    from . import httpd, pyfmt
    rng = random.Random(seed * 1000003 + 2)
    R = Result()
    W = Work("c02")
    try:
        n = 400 if tier == "thorough" else 30
        for i in range(n):
            src = gen_source(rng, 4000)
            if len(src) < 2:
                src = rng.randbytes(600)
            arch, apath, cfg_tok, hl = make_archive(W, rng, src, hash_len=rng.choice([4, 5, 8, 64]))
            kinds = []
            seeds = []
            for _ in range(rng.randrange(0, 5)):
                k = rng.randrange(7)
                kinds.append(k)
                if k == 0:
                    seeds.append(rng.randbytes(rng.randrange(1, 3000)))          # unrelated
                elif k == 1:
                    seeds.append(src)                                               # the source itself
                elif k in (2, 3):
                    seeds.append(edit_source(rng, src))                             # edited copy
                elif k == 4:
                    seeds.append(b"")                                               # empty
                elif k == 5:
                    seeds.append(bytes(len(src)))                                   # same size, other content
                else:
                    seeds.append(src[len(src) // 2:] + src[:len(src) // 2])         # reordered halves
            in_place = rng.random() < 0.4
            blockdev = in_place and rng.random() < 0.4
            use_http = rng.random() < 0.3
            stdin_seed = seeds.pop() if seeds and rng.random() < 0.25 else None
            prior = None
            outp = W.fresh(".out")
            if in_place:
                prior = edit_source(rng, src) if rng.random() < 0.7 else rng.randbytes(rng.randrange(1, 2000))
                if blockdev and len(prior) < len(src):
                    prior = prior + bytes(len(src) - len(prior) + rng.randrange(0, 50))
                with open(outp, "wb") as f:
                    f.write(prior)
            # not in place, but over what an earlier clone left there (longer than the source), with --force-create
            over_older = (not in_place) and i % 4 == 1
            if over_older:
                with open(outp, "wb") as f:
                    f.write(rng.randbytes(len(src) + rng.randrange(1, 3000)))
            seed_paths = [W.write(s, ".seed") for s in seeds]
            srv = None
            archive_arg = apath
            log = W.fresh(".strace")
            if use_http:
                srv = httpd.Server(arch)
                archive_arg = srv.url()
            verify = rng.random() < 0.3
            # --force-create next to --seed-output must change nothing (the prior output is still the seed)
            force_too = (in_place and i % 3 == 0) or over_older
            if over_older:
                R.stat("force_create_over_a_longer_file")
            cls, rc, so, se = clone_cli(W, archive_arg, outp, seeds=seed_paths, seed_output=in_place, stdin_seed=stdin_seed,
                                        blockdev=blockdev, verify_output=verify, force=force_too, strace_log=None if use_http else log)
            if force_too:
                R.stat("in_place_with_force_create_as_well")
            if verify:
                R.stat("with_verify_output_on_%s" % ("a_block_device" if blockdev else "a_file"))
            got = read_file(outp)
            req = "cli-clone seeds=%r stdin=%s in_place=%s blockdev=%s http=%s cfg=%s hl=%d src=%s" % (
                kinds, stdin_seed is not None, in_place, blockdev, use_http, cfg_tok, hl, digest(src))
            R.stat("clones")
            R.stat("with_%d_seeds" % (len(seeds) + (1 if stdin_seed is not None else 0)))
            if cls != "ok":
                R.fail("clone-with-seeds-%s" % cls, req + " :: " + se.decode(errors="replace")[-200:].replace("\n", "|"))
            elif (got[:len(src)] if blockdev else got) != src:
                R.fail("seeds-changed-the-output", req)
            # model: same scenario (stdin seed comes first, as in clone_archive)
            all_seeds = ([stdin_seed] if stdin_seed is not None else []) + seeds
            flags = ("s" if in_place else "") + ("b" if blockdev else "") + ("v" if verify else "") + ("h" if use_http else "") or "-"
            mreq = "clone-rf %s - %s %s %s -" % (flags, hx(arch), hx(prior or b""), ",".join(hx(s) if s else "h" for s in all_seeds) or "-")
            # what was fetched: local = reads on the archive beyond the header; http = Range log
            a = pyfmt.parse_archive(arch)
            hs = a["header_size"]
            wire = None
            if use_http:
                wire = [r for r in srv.log if r is not None]
                fetched = wire[2:]
                srv.close()
            else:
                fetched = [r for r in _strace_reads(log, apath) if r[0] >= hs]
            cuts = set()
            for cd in a["dictionary"]["chunk_descriptors"]:
                cuts.add(a["chunk_data_offset"] + cd["archive_offset"])
                cuts.add(a["chunk_data_offset"] + cd["archive_offset"] + cd["archive_size"])
            fetched = split_at(merge_ranges(fetched), cuts)
            if len(arch) + len(prior or b"") + sum(len(s) for s in all_seeds) <= 14000 and all(len(s) > 0 for s in all_seeds):
                R.case(mreq, None)   # answer filled below
                # over HTTP also the range requests as sent, in order (C07 for a whole clone: header, rest of
                # the header, one request per maximal run of adjacent missing chunks)
                R.cases[-1] = (mreq, "result=%s out=%s fetch=%s%s" % (cls if cls in ("ok", "panic") else "err", digest(got or b""),
                                                                      ",".join("%d:%d" % r for r in fetched) or "-",
                                                                      "" if wire is None else " wire=" + ",".join("%d:%d" % r for r in wire)))
                if wire is not None:
                    R.stat("http_clones_with_the_wire_compared")
            # direct C06 oracle: no chunk present in a seed / the prior output is fetched; each range once
            if len(set(fetched)) != len(fetched):
                R.fail("a-chunk-was-fetched-twice", req)
            if cls == "ok" and any(s == src for s in all_seeds) and fetched:
                R.fail("source-was-a-seed-but-chunks-were-fetched", req + " fetched=%r" % fetched[:4])
            if cls == "ok" and in_place and prior == src and fetched:
                R.fail("output-already-held-the-source-but-chunks-were-fetched", req + " fetched=%r" % fetched[:4])
            if os.path.exists(log):
                os.unlink(log)
        # dedicated rows (C02 + C03): in place AND seeds, where a seed provides chunks that belong where the
        # prior output still holds chunks needed elsewhere (the output must be reordered before seeds are used)
        for j in range(30 if tier == "thorough" else 8):
            bs = rng.choice([64, 256, 1000])
            nb = rng.randrange(4, 9)
            blocks = [rng.randbytes(bs) for _ in range(nb)]
            src = b"".join(blocks)
            cfg = (["--fixed-size", str(bs)], "F:%d" % bs) if j % 2 == 0 else None
            arch, apath, cfg_tok, hl = make_archive(W, rng, src, cfg=cfg)
            k = rng.randrange(1, nb - 1)
            prior = b"".join(blocks[k:]) + rng.randbytes(rng.randrange(0, bs))       # the tail, moved to the front
            seed_a = b"".join(reversed(blocks[:k])) + rng.randbytes(rng.randrange(0, 50))  # the head, out of order
            outp = W.fresh(".out")
            with open(outp, "wb") as f:
                f.write(prior)
            via_stdin = j % 3 == 0
            cls, rc, so, se = clone_cli(W, apath, outp, seeds=[] if via_stdin else [W.write(seed_a, ".seed")], seed_output=True,
                                        stdin_seed=seed_a if via_stdin else None)
            got = read_file(outp)
            req = "cli-clone in-place+seed (seed chunks land on chunks to be moved) cfg=%s bs=%d k=%d stdin=%s src=%s" % (
                cfg_tok, bs, k, via_stdin, digest(src))
            R.stat("in_place_with_seed_landing_on_moved_chunks")
            if cls != "ok":
                R.fail("clone-with-seeds-%s" % cls, req)
            elif got != src:
                R.fail("seeds-changed-the-output", req)
            if len(arch) + len(prior) + len(seed_a) <= 14000:
                mreq = "clone-ro s - %s %s %s -" % (hx(arch), hx(prior), hx(seed_a))
                R.case(mreq, None)
                R.cases[-1] = (mreq, "result=%s out=%s" % (cls if cls in ("ok", "panic") else "err", digest(got or b"")))
        # dedicated C06 rows with an oracle that needs no chunker (fixed-size blocks): the prior output is longer
        # or shorter than the source and holds some of its blocks (also in its tail, beyond the source length);
        # the source repeats blocks at non-adjacent positions.  Fetched = exactly the stored ranges of the blocks
        # of the source that the prior output does not hold at a block boundary, each once.
        for j in range(40 if tier == "thorough" else 10):
            bs = rng.choice([64, 128, 500])
            pool = [rng.randbytes(bs) for _ in range(7)]
            src_ids = [rng.randrange(7) for _ in range(rng.randrange(4, 12))]
            if j % 2 == 0:
                src_ids = src_ids + [src_ids[0], src_ids[1 % len(src_ids)]]          # repeats, not adjacent
            src = b"".join(pool[k] for k in src_ids) + (pool[0][:rng.randrange(1, bs)] if j % 3 == 0 else b"")
            arch, apath, cfg_tok, hl = make_archive(W, rng, src, cfg=(["--fixed-size", str(bs)], "F:%d" % bs), hash_len=64)
            shape = ["longer", "shorter", "same", "absent"][j % 4]
            prior_ids = [rng.randrange(9) for _ in range(len(src_ids) + (4 if shape == "longer" else -2 if shape == "shorter" else 0))]
            extra = [rng.randbytes(bs) for _ in range(2)]
            prior = b"".join((pool + extra)[k] for k in prior_ids)
            if shape == "longer":
                prior += pool[src_ids[-1]]                                             # a needed block in the tail
            outp = W.fresh(".out")
            if shape != "absent":
                with open(outp, "wb") as f:
                    f.write(prior)
            else:
                prior = b""
            use_http = j % 5 == 4
            log = W.fresh(".strace")
            srv = httpd.Server(arch) if use_http else None
            cls, rc, so, se = clone_cli(W, srv.url() if use_http else apath, outp, seed_output=True, strace_log=None if use_http else log)
            a = pyfmt.parse_archive(arch)
            if use_http:
                fetched = [r for r in srv.log if r is not None][2:]
                srv.close()
            else:
                fetched = [r for r in _strace_reads(log, apath) if r[0] >= a["header_size"]]
            cuts = set()
            for cd in a["dictionary"]["chunk_descriptors"]:
                cuts.add(a["chunk_data_offset"] + cd["archive_offset"])
                cuts.add(a["chunk_data_offset"] + cd["archive_offset"] + cd["archive_size"])
            fetched = split_at(merge_ranges(fetched), cuts)
            have = set(prior[o:o + bs] for o in range(0, len(prior), bs))
            src_blocks = [src[o:o + bs] for o in range(0, len(src), bs)]
            uniq = []
            for b in src_blocks:
                if b not in uniq:
                    uniq.append(b)
            # descriptors are the unique blocks in order of first occurrence, stored back to back, uncompressed
            expect, off = [], a["chunk_data_offset"]
            for cd, b in zip(a["dictionary"]["chunk_descriptors"], uniq):
                if b not in have:
                    expect.append((a["chunk_data_offset"] + cd["archive_offset"], cd["archive_size"]))
            req = "cli-clone in-place fixed blocks bs=%d prior=%s http=%s src_ids=%r prior_ids=%r" % (bs, shape, use_http, src_ids, prior_ids)
            R.stat("fixed_block_rows_prior_" + shape)
            if cls != "ok":
                R.fail("clone-with-seeds-%s" % cls, req)
            elif read_file(outp) != src:
                R.fail("seeds-changed-the-output", req)
            elif len(a["dictionary"]["chunk_descriptors"]) == len(uniq) and fetched != expect:
                R.fail("fetched-ranges-are-not-exactly-the-missing-chunks-each-once",
                       req + " :: fetched=%r expected=%r" % (fetched[:6], expect[:6]))
            if os.path.exists(log):
                os.unlink(log)
        # dedicated rows: a transient write fault on the output while SEEDS are being consumed (the fault is
        # gone afterwards): a clone that then reports success must still have produced the source
        shim = ensure_shim()
        for j in range(12 if tier == "thorough" else 3):
            src = rng.randbytes(rng.randrange(3000, 9000))
            arch, apath, cfg_tok, hl = make_archive(W, rng, src)
            seed_paths = [W.write(src if j % 2 == 0 else edit_source(rng, src), ".seed")]
            outp = W.fresh(".out")
            wl = W.fresh(".wl")
            with open(outp, "wb") as f:
                f.write(rng.randbytes(len(src)))
            clone_cli(W, apath, outp, seeds=seed_paths, force=True, preload=shim, env={"IOFAULT_PATH": outp, "IOFAULT_LOG": wl})
            nw = len(_shim_writes(wl))
            for k in sorted(set([0, nw // 3, nw // 2, max(0, nw - 2)])) if nw else []:
                with open(outp, "wb") as f:
                    f.write(rng.randbytes(len(src)))
                cls, rc, so, se = clone_cli(W, apath, outp, seeds=seed_paths, force=True, preload=shim,
                                            env={"IOFAULT_PATH": outp, "IOFAULT_MODE": "fail-once", "IOFAULT_AT": str(k), "IOFAULT_BYTES": "1"})
                R.stat("transient_write_fault_during_seed_phase")
                if cls == "ok" and read_file(outp) != src:
                    R.fail("seeds-changed-the-output",
                           "cli-clone seed=%s force over same-size file, write %d of %d fails once cfg=%s src=%s" % (
                               "source" if j % 2 == 0 else "edited", k, nw, cfg_tok, digest(src)))
                elif cls not in ("ok", "err"):
                    R.fail("clone-with-seeds-%s" % cls, "transient write fault at write %d cfg=%s src=%s" % (k, cfg_tok, digest(src)))
        # chunks larger than one write call of the runtime takes (2 MiB), delivered by a seed: a file, stdin
        bs = 3 << 20
        bsrc = rng.randbytes(bs) + rng.randbytes((1 << 20) + 5)
        barch, bapath, bcfg, bhl = make_archive(W, rng, bsrc, cfg=(["--fixed-size", str(bs)], "F:%d" % bs))
        for how in ("file", "stdin"):
            outp = W.fresh(".out")
            cls, rc, so, se = clone_cli(W, bapath, outp, seeds=[W.write(bsrc, ".seed")] if how == "file" else [],
                                        stdin_seed=bsrc if how == "stdin" else None)
            R.stat("clones")
            R.stat("seed_delivers_a_chunk_larger_than_one_write_call")
            if cls != "ok":
                R.fail("clone-with-seeds-%s" % cls, "cli-clone 3 MiB fixed chunks, the source itself as seed (%s)" % how)
            elif read_file(outp) != bsrc:
                R.fail("seeds-changed-the-output", "cli-clone 3 MiB fixed chunks, the source itself as seed (%s)" % how)
            os.unlink(outp)
        del bsrc
        # dedicated C06 rows: output already equal to the source, regular and block device
        for blockdev in (False, True):
            src = rng.randbytes(3000)
            # on a device longer than the source the scan sees the source's last chunk continue into the
            # trailing bytes unless the chunk boundary does not depend on them: fixed-size chunks there
            arch, apath, cfg_tok, hl = make_archive(W, rng, src, cfg=(["--fixed-size", "100"], "F:100") if blockdev else None)
            outp = W.fresh(".out")
            with open(outp, "wb") as f:
                f.write(src + (b"\1" * 77 if blockdev else b""))
            log = W.fresh(".strace")
            cls, rc, so, se = clone_cli(W, apath, outp, seed_output=True, blockdev=blockdev, strace_log=log)
            a = pyfmt.parse_archive(arch)
            fetched = [r for r in _strace_reads(log, apath) if r[0] >= a["header_size"]]
            req = "cli-clone in-place output==source blockdev=%s" % blockdev
            if cls != "ok":
                R.fail("in-place-clone-%s" % cls, req)
            if fetched:
                R.fail("output-already-held-the-source-but-chunks-were-fetched", req + " fetched=%r" % fetched[:4])
            R.stat("output_equals_source_rows")
        # ... and on REAL block devices (loop devices, when this machine lets us attach one): nothing about a device
        # is simulated here - its size as `metadata()` reports it (0), as seeking reports it, O_TRUNC ignored
        for state in ("device-holds-the-source", "device-holds-an-older-version"):
            bs = 512
            blocks = [rng.randbytes(bs) for _ in range(8)]
            src = b"".join(blocks[:6])
            arch, apath, cfg_tok, hl = make_archive(W, rng, src, cfg=(["--fixed-size", str(bs)], "F:%d" % bs))
            content = src + bytes(4 * bs) if state == "device-holds-the-source" else b"".join([blocks[6], blocks[0], blocks[1], blocks[7], blocks[4], blocks[5]]) + bytes(4 * bs)
            backing = W.write(content, ".blk")
            dev = None
            try:
                pl = subprocess.run(["losetup", "-f", "--show", backing], stdout=subprocess.PIPE, stderr=subprocess.PIPE, timeout=20)
                dev = pl.stdout.decode().strip() if pl.returncode == 0 else None
            except (OSError, subprocess.TimeoutExpired):
                dev = None
            if not dev or not os.path.exists(dev):
                R.stat("real_block_device_rows_skipped_no_loop_device")
                break
            try:
                log = W.fresh(".strace")
                cls, rc, so, se = clone_cli(W, apath, dev, seed_output=True, strace_log=log)
                a = pyfmt.parse_archive(arch)
                fetched = split_at(merge_ranges([r for r in _strace_reads(log, apath) if r[0] >= a["header_size"]]),
                                   set(a["chunk_data_offset"] + cd["archive_offset"] for cd in a["dictionary"]["chunk_descriptors"]))
                with open(dev, "rb") as fdev:
                    got = fdev.read(len(src))
                req = "cli-clone --seed-output onto a real block device (loop), %s, fixed blocks of %d" % (state, bs)
                R.stat("real_block_device_rows")
                if cls != "ok":
                    R.fail("in-place-clone-%s" % cls, req + " :: " + se.decode(errors="replace")[-160:].replace("\n", "|"))
                elif got != src:
                    R.fail("seeds-changed-the-output", req)
                # chunker-free oracle: a block of the source that the device holds at any block-aligned position is not fetched
                held = set(content[o:o + bs] for o in range(0, len(content) - bs + 1, bs))
                want = [(a["chunk_data_offset"] + cd["archive_offset"], cd["archive_size"]) for cd, blk in
                        zip(a["dictionary"]["chunk_descriptors"], [src[o:o + bs] for o in range(0, len(src), bs)]) if blk not in held]
                if cls == "ok" and sorted(fetched) != sorted(want):
                    R.fail("fetched-ranges-differ-from-the-missing-chunks", req + " fetched=%r expected=%r" % (fetched[:6], want[:6]))
            finally:
                subprocess.run(["losetup", "-d", dev], stdout=subprocess.PIPE, stderr=subprocess.PIPE)
    finally:
        W.close()
    return R.as_dict()


# ------------------------------------------------------------------------------ C05: interruption and write faults

def _shim_writes(logpath):
    out = []
    try:
        for ln in open(logpath):
            f = ln.split()
            if f and f[0] == "W":
                out.append((int(f[1]), int(f[2]), int(f[3])))
    except FileNotFoundError:
        pass
    return out


def c05_crash(seed, tier):
    """Kill the clone at (write k, after t bytes), re-run with --seed-output: must complete to the
    source; also repeated crashes.  A failing / torn write must not end in a success report."""
    from . import httpd  # noqa
    rng = random.Random(seed * 1000003 + 5)
    R = Result()
    W = Work("c05")
    shim = ensure_shim()
    try:
        # the crash points of a SHRINKING in-place update with block-aligned chunks: every source chunk is already
        # in place (or all but the last), the file is still as long as the older, larger one - the re-run finds
        # nothing (or little) to write and must still cut the file to the source length
        for j in range(10 if tier == "thorough" else 4):
            bs = rng.choice([64, 256, 1000])
            blocks = [rng.randbytes(bs) for _ in range(rng.randrange(2, 6))]
            ssrc = b"".join(blocks)
            sarch, sapath, scfg, shl = make_archive(W, rng, ssrc, cfg=(["--fixed-size", str(bs)], "F:%d" % bs))
            old_tail = rng.choice([b"".join(rng.choice(blocks) for _ in range(rng.randrange(1, 4))), rng.randbytes(rng.randrange(1, 3 * bs)),
                                   blocks[0] + rng.randbytes(bs // 2)])
            states = [("after-the-last-write", ssrc + old_tail),
                      ("before-the-last-write", ssrc[:-bs] + rng.randbytes(bs) + old_tail)]
            for name, state in states:
                outp = W.write(state, ".out")
                cls2, rc2, so2, se2 = clone_cli(W, sapath, outp, seed_output=True)
                req = "shrinking in-place update interrupted %s: cfg=%s src=%s file=%s" % (name, scfg, digest(ssrc), digest(state))
                R.stat("crash_states_of_a_shrinking_update")
                if cls2 != "ok":
                    R.fail("re-run-after-interruption-%s" % cls2, req)
                elif read_file(outp) != ssrc:
                    R.fail("re-run-after-interruption-wrong-output", req + " :: length %d, source %d" % (len(read_file(outp)), len(ssrc)))
                if len(sarch) + len(state) <= 9000:
                    R.case("clone-ro s - %s %s - -" % (hx(sarch), hx(state)), "result=ok out=%s" % digest(ssrc))
                os.unlink(outp)
        n = 25 if tier == "thorough" else 6
        for i in range(n):
            src = gen_source(rng, 3000)
            if len(src) < 200:
                src = rng.randbytes(1500)
            compression = rng.choice(["none", "brotli"])
            uncompressed = compression == "none"
            arch, apath, cfg_tok, hl = make_archive(W, rng, src, compression=compression)
            in_place = rng.random() < 0.6
            prior0 = (edit_source(rng, src) if rng.random() < 0.8 else rng.randbytes(900)) if in_place else None
            seed_paths = [W.write(edit_source(rng, src), ".seed")] if (i % 2 == 0 or rng.random() < 0.3) else []

            def fresh_out():
                p = W.fresh(".out")
                if prior0 is not None:
                    with open(p, "wb") as f:
                        f.write(prior0)
                return p

            # uninterrupted run: how many writes are there
            outp = fresh_out()
            wl = W.fresh(".wlog")
            cls, rc, so, se = clone_cli(W, apath, outp, seeds=seed_paths, seed_output=in_place, preload=shim,
                                        env={"IOFAULT_PATH": outp, "IOFAULT_LOG": wl})
            writes = _shim_writes(wl)
            desc = "scenario cfg=%s in_place=%s seeds=%d src=%s writes=%d" % (cfg_tok, in_place, len(seed_paths), digest(src), len(writes))
            if cls != "ok" or read_file(outp) != src:
                R.fail("uninterrupted-clone-%s" % cls, desc)
                continue
            R.stat("scenarios")
            R.stat("writes_total", len(writes))
            ks = list(range(len(writes))) if (tier == "thorough" or len(writes) <= 12) else sorted(rng.sample(range(len(writes)), 12))
            for k in ks:
                size_k = writes[k][2]
                tears = sorted(set([0, size_k, rng.randrange(0, size_k + 1)] + ([1, size_k - 1] if size_k > 2 else [])))
                if tier != "thorough":
                    tears = tears[:3]
                for t in tears:
                    outp = fresh_out()
                    cls, rc, so, se = clone_cli(W, apath, outp, seeds=seed_paths, seed_output=in_place, preload=shim,
                                                env={"IOFAULT_PATH": outp, "IOFAULT_MODE": "kill", "IOFAULT_AT": str(k), "IOFAULT_BYTES": str(t)})
                    req = "%s kill-at write=%d bytes=%d" % (desc, k, t)
                    R.stat("crash_points")
                    if cls != "signal9":
                        R.fail("kill-did-not-happen(%s)" % cls, req)
                        continue
                    crashed = read_file(outp)
                    # the model's in-place re-run on exactly what the crash left (uncompressed archives, small)
                    if crashed is not None and uncompressed and len(arch) + len(crashed) <= 9000 and R.stats.get("model_reruns", 0) < 40:
                        R.case("clone-ro s - %s %s - -" % (hx(arch), hx(crashed)), "result=ok out=%s" % digest(src))
                        R.stat("model_reruns")
                    # maybe a second interruption of the re-run
                    if rng.random() < 0.3:
                        k2 = rng.randrange(0, 6)
                        clone_cli(W, apath, outp, seed_output=True, preload=shim,
                                  env={"IOFAULT_PATH": outp, "IOFAULT_MODE": "kill", "IOFAULT_AT": str(k2), "IOFAULT_BYTES": str(rng.randrange(0, 40))})
                        R.stat("double_crashes")
                    cls2, rc2, so2, se2 = clone_cli(W, apath, outp, seed_output=True)
                    final = read_file(outp)
                    if cls2 != "ok":
                        R.fail("re-run-after-interruption-%s" % cls2, req + " :: " + se2.decode(errors="replace")[-200:].replace("\n", "|"))
                    elif final != src:
                        R.fail("re-run-after-interruption-wrong-output", req)
                    os.unlink(outp)
            # write failures: the k-th write fails (ENOSPC; permanently, or only once) or is torn: never a success report
            for mode in ("fail", "tear", "fail-once"):
                idxs = set([0, len(writes) - 1, len(writes) // 2] + ([len(writes) - 2] if len(writes) > 1 else []))
                if mode == "fail-once":
                    idxs |= set(range(len(writes))) if (tier == "thorough" or len(writes) <= 10) else set(rng.sample(range(len(writes)), 10))
                for k in sorted(idxs):
                    if k < 0 or k >= len(writes) or (mode == "tear" and writes[k][2] < 2):
                        continue        # a one-byte write cannot be torn
                    outp = fresh_out()
                    cls, rc, so, se = clone_cli(W, apath, outp, seeds=seed_paths, seed_output=in_place, preload=shim,
                                                env={"IOFAULT_PATH": outp, "IOFAULT_MODE": mode, "IOFAULT_AT": str(k),
                                                     "IOFAULT_BYTES": str(max(1, min(writes[k][2] - 1, writes[k][2] // 2)))})
                    req = "%s %s write=%d of %d" % (desc, mode, k, len(writes))
                    R.stat("write_faults")
                    if cls == "ok":
                        R.fail("failed-write-reported-as-success", req)
                    elif cls != "err":
                        R.fail("failed-write-ended-in-%s" % cls, req)
                    os.unlink(outp)
    finally:
        W.close()
    return R.as_dict()


# ------------------------------------------------------------------------------ C04: corruption

def c04_corruption(seed, tier):
    from . import httpd, pyfmt
    rng = random.Random(seed * 1000003 + 4)
    R = Result()
    W = Work("c04")
    try:
        pin_with_full_seeds(W, R, rng)
        # a retry over what a failed attempt (or an older version) left at the output path, with --force-create: first from an
        # archive with a flipped payload byte, then from the intact one with trailing garbage - success only with the source
        zsrc = rng.randbytes(600) + bytes(1200) + rng.randbytes(300)
        for comp_ in ("none", "brotli"):
            zarch, zapath, zcfg, zhl = make_archive(W, rng, zsrc, cfg=(["--fixed-size", "300"], "F:300"), compression=comp_)
            zhs = pyfmt_header_size(zarch)
            bad = bytearray(zarch)
            bad[zhs + rng.randrange(0, max(1, len(zarch) - zhs))] ^= 0x20
            outp = W.write(rng.randbytes(len(zsrc) + rng.randrange(0, 900)), ".out")
            for what, data in (("flipped payload byte", bytes(bad)), ("trailing garbage", zarch + rng.randbytes(50))):
                cls, rc, so, se = clone_cli(W, W.write(data, ".cba"), outp, force=True)
                R.stat("retries_over_a_leftover_output")
                if cls not in ("ok", "err"):
                    R.fail("clone-%s" % cls, "cli-clone --force-create over a leftover output, archive with %s (%s)" % (what, comp_))
                elif cls == "ok" and read_file(outp) != zsrc:
                    R.fail("success-with-wrong-output", "cli-clone --force-create over a leftover output, archive with %s (%s), source with all-zero chunks" % (what, comp_))
            os.unlink(outp)
        n = 24 if tier == "thorough" else 4
        for i in range(n):
            src = gen_source(rng, 1200)
            if len(src) < 100:
                src = rng.randbytes(700)
            compression = "none" if i % 2 == 0 else "brotli"
            arch, apath, cfg_tok, hl = make_archive(W, rng, src, compression=compression, hash_len=rng.choice([8, 16, 64]))
            a = pyfmt.parse_archive(arch)
            hs = a["header_size"]
            seed_path = W.write(edit_source(rng, src), ".seed")
            mutants = []
            # every single-bit flip for tiny archives (thorough), a sample otherwise; header and payload separately
            positions = list(range(len(arch) * 8))
            if tier != "thorough" or len(arch) > 1500:
                hdr_bits = rng.sample(range(hs * 8), min(60, hs * 8))
                pay_bits = rng.sample(range(hs * 8, len(arch) * 8), min(60, (len(arch) - hs) * 8)) if len(arch) > hs else []
                positions = hdr_bits + pay_bits
            for bit in positions:
                m = bytearray(arch)
                m[bit // 8] ^= 1 << (bit % 8)
                mutants.append(("flip@%d" % bit, bytes(m), bit // 8 < hs))
            for k in sorted(set([0, 1, 13, 14, hs - 64, hs - 63, hs - 32, hs - 1, hs, hs + 1, len(arch) - 1] + [rng.randrange(len(arch)) for _ in range(8)])):
                if 0 <= k < len(arch):
                    mutants.append(("truncate@%d" % k, arch[:k], k < hs))
            mutants.append(("trailing-garbage", arch + rng.randbytes(50), False))
            for _ in range(6):
                m = bytearray(arch)
                s0 = rng.randrange(len(arch))
                ln = rng.randrange(1, 40)
                m[s0:s0 + ln] = rng.randbytes(len(m[s0:s0 + ln]))
                mutants.append(("overwrite@%d+%d" % (s0, ln), bytes(m), s0 < hs))
            cds = a["dictionary"]["chunk_descriptors"]
            if len(cds) >= 2:
                c1, c2 = cds[0], cds[-1]
                o1, o2 = a["chunk_data_offset"] + c1["archive_offset"], a["chunk_data_offset"] + c2["archive_offset"]
                m = bytearray(arch)
                b1, b2 = arch[o1:o1 + c1["archive_size"]], arch[o2:o2 + c2["archive_size"]]
                if len(b1) == len(b2) and b1 != b2:
                    m[o1:o1 + len(b1)], m[o2:o2 + len(b2)] = b2, b1
                    mutants.append(("swap-payloads", bytes(m), False))
            for name, mbytes, in_header in mutants:
                if mbytes == arch:
                    continue
                mp = W.write(mbytes, ".mut.cba")
                outp = W.fresh(".out")
                mode = rng.randrange(4)
                kw = {}
                if mode == 1:
                    kw["seeds"] = [seed_path]
                elif mode == 2:
                    kw["verify_output"] = True
                elif mode == 3:
                    kw["pin"] = a["header_checksum"].hex()
                cls, rc, so, se = clone_cli(W, mp, outp, **kw)
                got = read_file(outp)
                req = "cli-clone corrupted %s %s mode=%d cfg=%s hl=%d" % (compression, name, mode, cfg_tok, hl)
                if in_header and mbytes[:hs] != arch[:hs]:
                    # "any change inside the header is rejected when the archive is OPENED": also when the clone
                    # would fail later anyway - `bita info` only opens
                    ci, rci, soi, sei = run_bita(["info", mp], timeout=30)
                    R.stat("altered_headers_opened_with_info")
                    if ci == "ok":
                        R.fail("altered-header-accepted-at-open", "bita info on %s %s cfg=%s hl=%d" % (compression, name, cfg_tok, hl))
                    elif ci != "err":
                        R.fail("corrupted-archive-%s" % ci, "bita info on %s %s" % (compression, name))
                R.stat("mutants")
                R.stat("mutant_%s" % name.split("@")[0])
                if cls == "ok":
                    R.stat("mutant_accepted")
                    if got != src:
                        R.fail("corrupted-archive-cloned-to-wrong-output", req)
                    if in_header and mbytes[:hs] != arch[:hs]:
                        R.fail("altered-header-accepted", req)
                elif cls != "err":
                    R.fail("corrupted-archive-%s" % cls, req)
                else:
                    R.stat("mutant_rejected")
                if compression == "none" and len(mbytes) <= 4000 and mode in (0, 2):
                    R.case("clone-ro %s - %s - - -" % ("v" if mode == 2 else "-", hx(mbytes)),
                           "result=%s out=%s" % ("ok" if cls == "ok" else "err" if cls == "err" else cls, digest(got or b"")))
                os.unlink(mp)
                if os.path.exists(outp):
                    os.unlink(outp)
            # --verify-header: anything but the complete genuine checksum must be refused, output not created
            hc = a["header_checksum"].hex()
            hb = bytes.fromhex(hc)
            swapped = bytearray(hb)
            ii = next(k for k in range(63) if hb[k] != hb[k + 1])
            swapped[ii], swapped[ii + 1] = swapped[ii + 1], swapped[ii]
            # wrong values of the right length whose differences cancel under a sum or an xor of the bytes:
            # two bytes transposed, the bytes reversed, rotated; and one with two bytes changed by the same amount
            same_delta = bytearray(hb)
            same_delta[3] ^= 0x40
            same_delta[40] ^= 0x40
            for pin in ("", hc[:2], hc[:16], hc[:126], "%02x" % (int(hc[:2], 16) ^ 1) + hc[2:],
                        bytes(swapped).hex(), hb[::-1].hex(), (hb[1:] + hb[:1]).hex(), bytes(same_delta).hex(), "00" * 64,
                        hc + "00", hc + hc, hc + "ab" * 7):      # the checksum followed by anything is not the checksum
                outp = W.fresh(".out")
                cls, rc, so, se = clone_cli(W, apath, outp, pin=pin)
                R.stat("pin_rows")
                if cls == "ok" or os.path.exists(outp):
                    R.fail("expected-header-checksum-differs-but-clone-proceeded", "cli-clone --verify-header %r (genuine %s...)" % (pin[:20], hc[:16]))
                elif cls != "err":
                    R.fail("pin-mismatch-%s" % cls, "cli-clone --verify-header %r" % pin[:20])
            # server misbehaviour
            for act in ("wrong", "errorpage", ("short", 10), ("extra", 25), "empty", ("status", 404), ("cut", 7)):
                srv = httpd.Server(arch, script=["full", "full"], default=act)
                outp = W.fresh(".out")
                cls, rc, so, se = clone_cli(W, srv.url(), outp, extra=["--http-retry-count", "1"], timeout=60)
                srv.close()
                got = read_file(outp)
                req = "cli-clone http server=%r" % (act,)
                R.stat("server_misbehaviours")
                if cls == "ok" and got != src:
                    R.fail("misbehaving-server-cloned-to-wrong-output", req)
                elif cls not in ("ok", "err"):
                    R.fail("misbehaving-server-%s" % cls, req)
    finally:
        W.close()
    return R.as_dict()


# ------------------------------------------------------------------------------ C17: conforming archives from the independent encoder

def brotli_table(W, chunks, level=5):
    """stored bytes for chunks through bita's own brotli (the harness helper); {chunk: compressed}"""
    if not chunks:
        return {}
    inp = W.fresh(".chunks")
    with open(inp, "w") as f:
        for c in chunks:
            f.write(c.hex() + "\n")
    out = W.fresh(".comp")
    p = subprocess.run([os.path.join(core.TARGET, "debug", "l1"), "codec", inp, out, str(level)],
                       stdout=subprocess.PIPE, stderr=subprocess.PIPE, env=core.env_offline(), timeout=300)
    if p.returncode != 0:
        raise core.Failure("codec helper failed", p.stderr.decode(errors="replace")[-300:])
    res = {}
    for c, ln in zip(chunks, open(out).read().split("\n")):
        res[c] = bytes.fromhex(ln) if ln and ln != "-" else b""
    return res


def random_cut(rng, n):
    sizes = []
    left = n
    while left > 0:
        s = min(left, rng.choice([1, 2, 3, 7, 50, 100, 300, rng.randrange(1, 400)]))
        sizes.append(s)
        left -= s
    return sizes


def c17_conforming(seed, tier):
    from . import httpd, pyfmt
    rng = random.Random(seed * 1000003 + 17)
    R = Result()
    W = Work("c17")
    try:
        n = 800 if tier == "thorough" else 40
        for i in range(n):
            src = gen_source(rng, 3000)
            if rng.random() < 0.1:
                src = b""
            sizes = random_cut(rng, len(src))
            hash_len = rng.choice([4, 5, 8, 16, 33, 64])
            algo = rng.randrange(3)
            if algo == 2:
                cfg = (2, 0, 0, rng.choice([1, 64, 1000]), 0)
            else:
                w = rng.choice([1, 4, 16, 64])
                mn = rng.choice([0, 4, 100])
                cfg = (algo, rng.randrange(1, 25), mn, max(mn, w) + rng.randrange(0, 1000), w)
                if algo == 1 and rng.random() < 0.35:
                    # RollSum needs no relation between window and maximum chunk size (bita's own defaults give 64 > max for small maxima)
                    cfg = (1, cfg[1], mn, mn + rng.randrange(1, 48), rng.choice([64, 100, 5000]))
                    R.stat("rollsum_window_above_max_chunk_size")
            use_brotli = rng.random() < 0.4
            pieces = pyfmt.chunks_of(src, sizes)
            table = brotli_table(W, sorted(set(pieces)), 5) if use_brotli else {}

            def comp(p):
                z = table.get(p)
                # per-chunk choice of compressed vs raw; never compressed with stored size == source size
                if z is None or len(z) == len(p) or rng.random() < 0.3:
                    return None
                return z

            md = {"k": b"v", "": b"", "bin": bytes(range(5))} if rng.random() < 0.3 else {}
            arch, d = pyfmt.encode_archive(src, sizes, cfg, hash_len, rng, freedoms=True, compress=comp if use_brotli else None,
                                           compression_code=3 if use_brotli else 0, level=5 if use_brotli else 0, metadata=md)
            apath = W.write(arch, ".ind.cba")
            req = "independent-archive algo=%d hl=%d brotli=%s chunks=%d src=%s arch=%s" % (algo, hash_len, use_brotli, len(sizes), digest(src), digest(arch))
            R.stat("archives")
            R.stat("magic_legacy" if arch[:1] == b"\0" else "magic_current")
            # local clone
            outp = W.fresh(".out")
            cls, rc, so, se = clone_cli(W, apath, outp, verify_output=rng.random() < 0.5)
            got = read_file(outp)
            if cls != "ok":
                R.fail("conforming-archive-clone-%s" % cls, req + " :: " + se.decode(errors="replace")[-200:].replace("\n", "|"))
            elif got != src:
                R.fail("conforming-archive-cloned-to-wrong-output", req)
            # http clone (sometimes with a seed so that only part is fetched)
            if i % 2 == 0:
                srv = httpd.Server(arch)
                outp2 = W.fresh(".out")
                kw = {"seeds": [W.write(edit_source(rng, src), ".seed")]} if rng.random() < 0.5 and src else {}
                cls2, rc2, so2, se2 = clone_cli(W, srv.url(), outp2, **kw)
                srv.close()
                if cls2 != "ok" or read_file(outp2) != src:
                    R.fail("conforming-archive-http-clone-%s" % cls2, req)
                R.stat("http_clones")
            # what the reader reports (bita info) vs the encoder's inputs
            c3, rc3, so3, se3 = run_bita(["info", apath])
            text = (so3 + se3).decode(errors="replace")
            if c3 != "ok":
                R.fail("conforming-archive-info-%s" % c3, req)
            else:
                want = ["Built with version: 9.9.9-independent", "Chunk hash length: %d bytes" % hash_len,
                        "Source checksum: %s" % hashlib.blake2b(src).hexdigest(),
                        "Chunks in source: %d (unique: %d)" % (len(sizes), len(d["chunk_descriptors"])),
                        "Chunking algorithm: %s" % ["BuzHash", "RollSum", "Fixed Size"][algo],
                        "Chunk compression: %s" % ("Brotli (level 5)" if use_brotli else "None")]
                for wline in want:
                    if wline not in text:
                        R.fail("reader-reports-other-than-encoded", req + " :: missing %r" % wline)
                        break
            # model: opens and clones (uncompressed, small)
            if not use_brotli and len(arch) <= 5000:
                R.case("clone-ro - - %s - - -" % hx(arch), "result=%s out=%s" % (cls if cls in ("ok", "panic") else "err", digest(got or b"")))
    finally:
        W.close()
    return R.as_dict()


# ------------------------------------------------------------------------------ C11: written archives judged by the independent decoder

def c11_conformance(seed, tier):
    from . import pyfmt
    rng = random.Random(seed * 1000003 + 11)
    R = Result()
    W = Work("c11")
    try:
        n = 600 if tier == "thorough" else 30
        version = None
        try:
            version = re.search(r'^version = "([^"]+)"', open(os.path.join(core.REPO, "Cargo.toml")).read(), re.M).group(1)
        except Exception:
            pass
        # both writers on a source with small chunks followed by chunks of 2 MiB and small ones again, stored as they
        # are: the stored bytes at every descriptor's offset must be that chunk (independent decoder)
        mixed = rng.randbytes(100000) + bytes([7]) * (5 << 20) + rng.randbytes(50000)
        mcfg = ["--hash-chunking", "RollSum", "--avg-chunk-size", "64KiB", "--min-chunk-size", "16KiB", "--max-chunk-size", "2MiB",
                "--rolling-window-size", "64"]
        for writer in ("cli", "lib"):
            if writer == "cli":
                clsm, archm, sem, apm = compress_cli(W, mixed, mcfg, 32, "none", None, 3)
            else:
                archm, errm = lib_compress(W, mixed, "R:15:16384:2097152:64", 32, "none", None, 3, [], 0)
                clsm = "ok" if archm is not None else "err"
            R.stat("archives_with_small_and_2MiB_chunks")
            if clsm != "ok" or archm is None:
                R.fail("compress-%s" % clsm, "%s-compress mixed chunk sizes" % writer)
            else:
                probs = pyfmt.conformance_problems(archm, mixed, "R:15:16384:2097152:64", 32, 0, 0, {}, version)
                if probs:
                    R.fail("archive-does-not-conform", "%s-compress small chunks, 2 MiB chunks, small chunks :: %s" % (writer, "; ".join(probs)[:300]))
        del mixed
        # a metadata value that comes from something that is not a regular file (a named pipe: size 0 until read)
        try:
            import threading
            fifo = W.fresh(".meta.fifo")
            os.mkfifo(fifo)
            val = b"1.2.3-from-a-pipe\n" * 3

            def feed_meta(path=fifo, data=val):
                try:
                    with open(path, "wb") as fw:
                        fw.write(data)
                except OSError:
                    pass
            th = threading.Thread(target=feed_meta, daemon=True)
            th.start()
            msrc = rng.randbytes(3000)
            clsp, archp, sep, app = compress_cli(W, msrc, ["--fixed-size", "1000"], 16, "none", None, 2, [], extra=["--metadata-file", "version", fifo], timeout=60)
            th.join(timeout=5)
            if not th.is_alive() or clsp == "ok":
                R.stat("metadata_file_is_a_named_pipe")
                if clsp != "ok" or archp is None:
                    R.fail("compress-%s" % clsp, "cli-compress --metadata-file version <named pipe>")
                else:
                    rec = pyfmt.parse_archive(archp)["dictionary"]["metadata"]
                    if rec.get("version") != val:
                        R.fail("archive-does-not-conform", "cli-compress --metadata-file version <named pipe> :: recorded %d bytes, the pipe delivered %d" % (
                            len(rec.get("version", b"")), len(val)))
            if th.is_alive():
                # nobody opened the pipe: release the feeder
                try:
                    fd = os.open(fifo, os.O_RDONLY | os.O_NONBLOCK)
                    os.close(fd)
                except OSError:
                    pass
        except (OSError, AttributeError):
            pass
        for i in range(n):
            src = gen_source(rng, 20000 if i % 5 == 0 else 3000)
            cfg_args, cfg_tok, _w = gen_config(rng)
            hash_len = rng.choice([4, 8, 16, 32, 64, rng.randrange(4, 65)])
            compression = rng.choice(["none", "brotli"])
            level = rng.randrange(1, 12) if compression == "brotli" else None
            md = {}
            for j in range(rng.randrange(0, 4)):
                md[rng.choice(["", "a", "key%d" % j, "ключ", "k k"])] = rng.choice(["", "v", "binÿ", "x" * 300])
            if i == 0:
                # KNOWN FINDING: sizes of 4 GiB and more are recorded modulo 2^32
                cls_g, arch_g, se_g, ap_g = compress_cli(W, src or b"y" * 100, ["--hash-chunking", "RollSum", "--avg-chunk-size", "64KiB",
                                                        "--min-chunk-size", "16KiB", "--max-chunk-size", "4097MiB", "--rolling-window-size", "64"], 64, "none")
                R.stat("chunk_size_beyond_32_bits_cases")
                if cls_g == "ok" and arch_g:
                    rec = pyfmt.parse_archive(arch_g)["dictionary"]["chunker_params"]["max_chunk_size"]
                    if rec != 4097 << 20:
                        R.fail("archive-does-not-conform", "cli-compress chunk-size-beyond-32-bits --max-chunk-size 4097MiB :: recorded %d" % rec)
                # the library writer under a file size limit (its temp file cannot take the last chunk): an error, or
                # a conforming archive - never Ok with an archive shorter than its header says
                import resource, signal
                lsrc = rng.randbytes(4 * 1024)
                inp = W.write(lsrc, ".src"); outl = W.fresh(".lim.cba")

                def limit():
                    signal.signal(signal.SIGXFSZ, signal.SIG_IGN)
                    resource.setrlimit(resource.RLIMIT_FSIZE, (3500, 3500))
                # (the archive goes to stdout: a pipe is not subject to the limit, the writer's temp file is)
                pl = subprocess.run([os.path.join(core.TARGET, "debug", "l1"), "lib-compress", inp, "-", "F:1024", "64", "none", "6", "2", "-", "0"],
                                    stdout=subprocess.PIPE, stderr=subprocess.PIPE, env=core.env_offline(), preexec_fn=limit, timeout=120)
                R.stat("library_writer_under_file_size_limit")
                la = pl.stdout if pl.returncode == 0 else None
                if pl.returncode == 0 and la is not None:
                    probs_l = pyfmt.conformance_problems(la, lsrc, "F:1024", 64, 0, 0, {}, version)
                    if probs_l:
                        R.fail("archive-does-not-conform", "lib-compress under RLIMIT_FSIZE=3500 returned Ok :: " + "; ".join(probs_l)[:200])
            writer = "cli" if i % 3 else "lib"
            if i % 4 == 1:
                # duplicates at the tail: the last chunks repeat earlier ones (fixed blocks; a zero-filled tail)
                if i % 8 == 1:
                    bs = rng.choice([64, 100, 1000])
                    blocks = [rng.randbytes(bs) for _ in range(3)]
                    src = b"".join(blocks) + b"".join(rng.choice(blocks) for _ in range(rng.randrange(1, 4)))
                    if rng.random() < 0.5:
                        src += rng.choice(blocks)[:rng.randrange(1, bs)]
                    cfg_args, cfg_tok = ["--fixed-size", str(bs)], "F:%d" % bs
                else:
                    src = src[:2000] + bytes(rng.randrange(3000, 9000))
                R.stat("sources_with_duplicate_tail_chunks")
            if writer == "cli":
                outp = W.fresh(".cba")
                if i % 6 == 4:
                    # --force-create over an existing, longer file: the archive must still end at its last chunk
                    with open(outp, "wb") as f:
                        f.write(rng.randbytes(len(src) * 2 + 70000))
                    R.stat("force_over_longer_existing_output")
                if i % 2 == 0:
                    # a stale temp file, longer than anything this run stores (left by an interrupted compress)
                    with open(os.path.splitext(outp)[0] + "..tmp", "wb") as f:
                        f.write(rng.randbytes(len(src) + 5000))
                    R.stat("with_stale_temp_file")
                # metadata as a command line gives it: --metadata-value pairs (a key may come twice) and
                # --metadata-file pairs (a key may also be among the values): values first, then files, the last one wins
                md_strings = list(md.items())
                md_files = []
                if i % 2 == 1:
                    pool = ["", "a", "key0", "ключ", "k k", "b"]
                    md_strings = [(rng.choice(pool), rng.choice(["", "v", "w", "binÿ", "x" * 300])) for _ in range(rng.randrange(1, 5))]
                    md_files = [(rng.choice(pool), rng.choice([b"", b"file", bytes(range(200, 256)), b"\x00\xff" * 40])) for _ in range(rng.randrange(0, 3))]
                    md = {}
                    for k_, v_ in md_strings:
                        md[k_] = v_
                    R.stat("metadata_given_with_repeated_keys_or_files")
                extra = ["--force-create"] if i % 6 == 4 else []
                for k_, b_ in md_files:
                    extra += ["--metadata-file", k_, W.write(b_, ".meta")]
                cls, arch, se, apath = compress_cli(W, src, cfg_args, hash_len, compression, level, rng.choice([1, 3, 16]), md_strings,
                                                    via_stdin=rng.random() < 0.3, out=outp, extra=extra or None)
                md_bytes = {k_: v_.encode() for k_, v_ in md.items()}
                for k_, b_ in md_files:
                    md_bytes[k_] = b_
                if cls == "ok" and arch is not None and (md_files or len(md_strings) != len(md)):
                    # the model's map (Bita.Options.metadataOf) against what the archive records
                    try:
                        rec = pyfmt.parse_archive(arch)["dictionary"]["metadata"]
                        tok = lambda b: hx(b) if b else "e"
                        R.case("meta-map %s %s" % (",".join("%s:%s" % (tok(k_.encode()), tok(v_.encode())) for k_, v_ in md_strings) or "-",
                                                   ",".join("%s:%s" % (tok(k_.encode()), tok(b_)) for k_, b_ in md_files) or "-"),
                               "map=" + (",".join("%s:%s" % (tok(k_.encode()), tok(rec[k_])) for k_ in sorted(rec, key=lambda x: x.encode())) or "-"))
                    except ValueError:
                        pass
                if os.path.exists(os.path.splitext(outp)[0] + "..tmp"):
                    R.fail("temp-file-left-behind", "cli-compress (stale temp scenario) src=%s" % digest(src))
            else:
                arch, err = lib_compress(W, src, cfg_tok, hash_len, compression, level, rng.choice([1, 3, 16]), list(md.items()), rng.choice([0, 1, 100]))
                cls = "ok" if arch is not None else "err"
                apath = W.write(arch or b"", ".cba")
            req = "%s-compress %s hl=%d %s/%s md=%d src=%s" % (writer, cfg_tok, hash_len, compression, level, len(md), digest(src))
            R.stat("archives_%s" % writer)
            if cls != "ok" or arch is None:
                R.fail("compress-%s" % cls, req)
                continue
            expected_md = md_bytes if writer == "cli" else {k: v.encode() for k, v in md.items()}
            probs = pyfmt.conformance_problems(arch, src, cfg_tok, hash_len, 3 if compression == "brotli" else 0, level or 0,
                                               expected_md, version)
            if probs:
                R.fail("archive-does-not-conform", req + " :: " + "; ".join(probs)[:300])
            # the model's reading of the same bytes (header + dictionary) agrees with the implementation's `info`
            if len(arch) <= 6000:
                R.case("try-init %s" % hx(arch), None)
                R.cases[-1] = ("try-init " + hx(arch), "__accept_ok__")
            # bita info reports the settings back
            c3, rc3, so3, se3 = run_bita(["info", apath])
            text = (so3 + se3).decode(errors="replace")
            if c3 != "ok" or ("Chunk hash length: %d bytes" % hash_len) not in text:
                R.fail("info-does-not-report-settings", req)
            for k, v in expected_md.items():
                c4, rc4, so4, se4 = run_bita(["info", "--metadata-key", k, apath])
                if c4 != "ok" or so4 != v:
                    R.fail("metadata-not-reported-verbatim", req + " key=%r" % k)
                    break
    finally:
        W.close()
    return R.as_dict()


# ------------------------------------------------------------------------------ C15: crafted archives and servers through the CLI

def c15_cli(seed, tier):
    from . import httpd, pyfmt
    rng = random.Random(seed * 1000003 + 15)
    R = Result()
    W = Work("c15")
    try:
        base_src = rng.randbytes(500)
        sizes = random_cut(rng, len(base_src))
        n = 400 if tier == "thorough" else 70
        seedfile = W.write(rng.randbytes(3000) + bytes(2000), ".seed")
        for i in range(n):
            arch, d = pyfmt.encode_archive(base_src, sizes, (1, 5, 16, 512, 16), 8, rng, freedoms=False)
            # structure-aware mutation under a recomputed checksum
            p = d["chunker_params"]
            mut = rng.randrange(25)
            name = "none"
            if i in (5, 6, 7):
                mut = 22
            elif i in (8, 9):
                mut = 23
            elif i in (10, 11):
                mut = 24
            elif i in (12, 13, 14):
                mut = 100 + i
            if mut == 0:
                d["rebuild_order"] = d["rebuild_order"] + [len(d["chunk_descriptors"]) + rng.choice([0, 1, 1000, 2 ** 32 - 1])]; name = "rebuild-index-out-of-range"
            elif mut == 1:
                p["chunking_algorithm"] = 2; p["max_chunk_size"] = 0; name = "fixed-size-0"
            elif mut == 2:
                p["rolling_hash_window_size"] = 0; name = "window-0"
            elif mut == 3:
                p["chunking_algorithm"] = 0; p["rolling_hash_window_size"] = 0; name = "buzhash-window-0"
            elif mut == 4:
                p["chunk_filter_bits"] = rng.choice([0, 31, 32, 33, 40, 2 ** 32 - 1]); name = "filter-bits-%d" % p["chunk_filter_bits"]
            elif mut == 5:
                p["min_chunk_size"] = p["max_chunk_size"] + rng.choice([1, 2, 1000]); name = "min-gt-max"
            elif mut == 6:
                p["chunking_algorithm"] = 0; p["rolling_hash_window_size"] = p["max_chunk_size"] + 1; name = "buzhash-window-gt-max"
            elif mut == 7:
                d["chunk_descriptors"][0]["archive_offset"] = 2 ** 64 - rng.choice([1, 50, 300]); name = "offset-near-2^64"
            elif mut == 8:
                d["chunk_descriptors"][0]["archive_size"] = 0; name = "stored-size-0"
            elif mut == 9:
                d["chunk_descriptors"][0]["source_size"] = rng.choice([0, 2 ** 32 - 1]); name = "source-size-extreme"
            elif mut == 10:
                p["chunk_hash_length"] = rng.choice([0, 65, 2 ** 32 - 1]); name = "hash-length-%d" % p["chunk_hash_length"]
            elif mut == 11:
                p["chunking_algorithm"] = rng.choice([3, 7, 2 ** 31, 2 ** 32 - 1]); name = "algorithm-out-of-range"
            elif mut == 12:
                d["chunk_compression"]["compression"] = rng.choice([1, 2, 4, 2 ** 32 - 1]); name = "compression-%d" % d["chunk_compression"]["compression"]
            elif mut == 13:
                d["chunker_params"] = None; name = "no-chunker-params"
            elif mut == 14:
                d["chunk_compression"] = None; name = "no-compression"
            elif mut == 15:
                d["chunk_descriptors"] = []; name = "no-descriptors-but-rebuild-order"
            elif mut == 16:
                d["chunk_descriptors"] = []; d["rebuild_order"] = []; d["source_total_size"] = 0; name = "empty-archive"
            elif mut == 17:
                d["chunk_descriptors"][0]["checksum"] = b""; name = "empty-checksum"
            elif mut == 18:
                d["source_total_size"] = 2 ** 64 - 1; name = "total-size-max"
            elif mut == 19:
                p["rolling_hash_window_size"] = 2 ** 20; p["max_chunk_size"] = 2 ** 21; p["min_chunk_size"] = 0; name = "big-window"
            elif mut == 20:
                p["chunking_algorithm"] = 1; p["rolling_hash_window_size"] = 3000; p["max_chunk_size"] = 100; p["min_chunk_size"] = 0; name = "rollsum-window-gt-max"
            if i == 3:
                # window * 31 >= 2^32: RollSum::add's product overflows on the very first byte
                p["chunking_algorithm"] = 1; p["rolling_hash_window_size"] = 140000000; p["max_chunk_size"] = 2 ** 28
                p["min_chunk_size"] = 0; p["chunk_filter_bits"] = 5; name = "huge-rollsum-window"; mut = 99
            elif i == 4:
                p["chunking_algorithm"] = 1; p["rolling_hash_window_size"] = 20000; p["max_chunk_size"] = 2 ** 20
                p["min_chunk_size"] = 0; p["chunk_filter_bits"] = 5; name = "rollsum-window-20000"; mut = 99
            if mut == 112:
                # descriptors that no rebuild entry refers to: an empty source with chunks in the archive
                d["rebuild_order"] = []; d["source_total_size"] = 0; name = "descriptors-but-empty-rebuild-order"
            elif mut == 113 and len(d["chunk_descriptors"]) >= 2:
                # only the first descriptor is used
                d["rebuild_order"] = [0]; d["source_total_size"] = d["chunk_descriptors"][0]["source_size"]; name = "only-one-descriptor-referenced"
            elif mut == 114:
                d["rebuild_order"] = []; name = "empty-rebuild-order-with-a-declared-size"
            if mut == 22 and len(d["chunk_descriptors"]) >= 2:
                # chunk_data_offset + archive_offset fits 64 bits, + archive_size does not
                j = rng.randrange(len(d["chunk_descriptors"]))
                d["chunk_descriptors"][j]["archive_offset"] = 2 ** 64 - 1000
                hl_ = len(pyfmt.build_header(pyfmt.encode_dictionary(d)))
                d["chunk_descriptors"][j]["archive_offset"] = 2 ** 64 - hl_ - rng.choice([1, 2, 3])
                d["chunk_descriptors"][j]["archive_size"] = max(4, d["chunk_descriptors"][j]["archive_size"])
                name = "offset-plus-size-overflow"
            if mut == 23 and d["chunk_descriptors"]:
                # a chunk declared larger / smaller than it is (the total adjusted so that the dictionary adds up):
                # the layout would overlap or leave a gap - the clone must end in an error
                j = rng.randrange(len(d["chunk_descriptors"]))
                delta = rng.choice([-1, 1, 7, -d["chunk_descriptors"][j]["source_size"] + 1]) if d["chunk_descriptors"][j]["source_size"] > 1 else 3
                d["chunk_descriptors"][j]["source_size"] += delta
                d["source_total_size"] = sum(d["chunk_descriptors"][k]["source_size"] for k in d["rebuild_order"])
                name = "chunk-size-lie"
            elif mut == 24:
                d["source_total_size"] = max(0, d["source_total_size"] + rng.choice([-1, 1, 1000, -d["source_total_size"]]))
                name = "total-size-lie"
            dbytes = pyfmt.encode_dictionary(d)
            declared = None
            if mut == 21:
                declared = rng.choice([2 ** 40, 2 ** 62, 2 ** 64 - 1, 2 ** 64 - 72, 2 ** 64 - 80, len(dbytes) + 1, 0]); name = "declared-dict-size-%d" % declared
            hdr = pyfmt.build_header(dbytes, magic=rng.choice([pyfmt.MAGIC, pyfmt.LEGACY_MAGIC]), declared_size=declared)
            data = hdr + arch[pyfmt.parse_archive(arch)["header_size"]:]
            apath = W.write(data, ".crafted.cba")
            classes = []
            for cmd in ("info", "clone", "clone-seed", "clone-inplace", "clone-http", "clone-http-seed"):
                outp = W.fresh(".out")
                if cmd.startswith("clone-http"):
                    # the same crafted bytes behind the HTTP reader (range arithmetic, adjacent runs)
                    srv = httpd.Server(data)
                    cls, rc, so, se = clone_cli(W, srv.url(), outp, seeds=[seedfile] if cmd.endswith("seed") else [], timeout=30)
                    srv.close()
                elif cmd == "info":
                    cls, rc, so, se = run_bita(["info", apath], timeout=20)
                elif cmd == "clone":
                    cls, rc, so, se = clone_cli(W, apath, outp, timeout=20)
                elif cmd == "clone-seed":
                    cls, rc, so, se = clone_cli(W, apath, outp, seeds=[seedfile], timeout=20)
                else:
                    with open(outp, "wb") as f:
                        f.write(rng.randbytes(700) + bytes(900))
                    cls, rc, so, se = clone_cli(W, apath, outp, seed_output=True, timeout=20)
                classes.append(cls)
                R.stat("runs")
                if cls not in ("ok", "err"):
                    R.fail("crafted-archive-%s" % cls, "bita %s on crafted archive %s :: %s" % (cmd, name, se.decode(errors="replace")[-160:].replace("\n", "|")))
                if name in ("chunk-size-lie", "total-size-lie") and cmd != "info" and cls == "ok":
                    R.fail("inconsistent-dictionary-cloned-with-success", "bita %s on crafted archive %s" % (cmd, name))
                if name.startswith("hash-length") and cmd != "info" and cls == "ok" and read_file(outp) != base_src:
                    # only the declared hash length was changed: a clone that succeeds must still produce the source
                    R.fail("inconsistent-dictionary-cloned-to-wrong-output", "bita %s on crafted archive %s" % (cmd, name))
                if os.path.exists(outp):
                    os.unlink(outp)
            R.stat("mutation_" + name.split("-%d" % 0)[0][:40])
            # the model's verdict on opening the same bytes
            if declared is None or declared < 2 ** 20:
                R.case("try-init %s" % hx(data), "__class__:" + ("ok" if classes[0] == "ok" else "invalid-or-reader-err"))
            os.unlink(apath)
        # a large file (> 1 MiB, so that the local reader's first buffer fills) with a forged dictionary size
        big_src = rng.randbytes(1 << 20) + bytes(600000)
        big_arch, _d = pyfmt.encode_archive(big_src, random_cut(rng, len(big_src)), (1, 5, 16, 512, 16), 8, rng, freedoms=False)
        for declared in (2 ** 62, 2 ** 40, 2 ** 32, 2 ** 63 + 5, 2 ** 64 - 73):
            forged = bytearray(big_arch)
            forged[6:14] = declared.to_bytes(8, "little")
            apath = W.write(bytes(forged), ".forged.cba")
            for cmd in ("info", "clone"):
                outp = W.fresh(".out")
                t0 = time.time()
                if cmd == "info":
                    cls, rc, so, se = run_bita(["info", apath], timeout=60)
                else:
                    cls, rc, so, se = clone_cli(W, apath, outp, timeout=60)
                R.stat("forged_size_runs")
                if cls not in ("ok", "err"):
                    R.fail("crafted-archive-%s" % cls, "bita %s on a %d byte file declaring a dictionary of %d bytes :: %s" % (
                        cmd, len(forged), declared, se.decode(errors="replace")[-120:].replace("\n", "|")))
            os.unlink(apath)
        # servers: surplus bytes, empty bodies, wrong status, for header and chunk requests
        arch, d = pyfmt.encode_archive(base_src, sizes, (1, 5, 16, 512, 16), 8, rng, freedoms=False)
        for script in (["full", "full", ("extra", 9)], [("extra", 5)], ["full", ("extra", 1000)], ["empty"], ["full", "empty"],
                       ["full", "full", "empty"], [("status", 500)], ["full", ("status", 404)], ["full", "full", ("status", 416)],
                       ["full", "full", ("short", 3)], ["full", "full", "wrong"], ["refuse"], ["full", "refuse"]):
            srv = httpd.Server(arch, script=list(script))
            outp = W.fresh(".out")
            cls, rc, so, se = clone_cli(W, srv.url(), outp, extra=["--http-retry-count", "1"], timeout=30)
            srv.close()
            R.stat("server_scripts")
            if cls not in ("ok", "err"):
                R.fail("server-behaviour-%s" % cls, "bita clone with server script %r :: %s" % (script, se.decode(errors="replace")[-160:].replace("\n", "|")))
            elif cls == "ok" and read_file(outp) != base_src:
                R.fail("server-behaviour-wrong-output", "script %r" % (script,))
        # chunk requests that fail before any response head arrives (the header was served): once or for good,
        # with no retry or one, default and minimal pipelining - an error, never a panic
        for script, default, retries, buffered in ((["full", "full", "refuse"], "full", "0", None), (["full", "full"], "refuse", "0", None),
                                                   (["full", "full"], "refuse", "1", None), (["full", "full"], "refuse", "0", "1"),
                                                   (["full", "full", "empty"], "refuse", "0", None), (["full", "full"], ("status", 503), "0", None)):
            srv = httpd.Server(arch, script=list(script), default=default)
            outp = W.fresh(".out")
            extra = ["--http-retry-count", retries] + (["--buffered-chunks", buffered] if buffered else [])
            cls, rc, so, se = clone_cli(W, srv.url(), outp, extra=extra, timeout=60)
            srv.close()
            R.stat("server_scripts")
            R.stat("server_scripts_failing_chunk_requests")
            if cls not in ("ok", "err"):
                R.fail("server-behaviour-%s" % cls, "bita clone %s with server script %r then %r :: %s" % (
                    " ".join(extra), script, default, se.decode(errors="replace")[-160:].replace("\n", "|")))
            elif cls == "ok" and read_file(outp) != base_src:
                R.fail("server-behaviour-wrong-output", "script %r then %r" % (script, default))
        # decompression bombs: a stored chunk of a few hundred bytes that expands far beyond the source size
        # declared for it (the dictionary is consistent otherwise and the header checksum is valid).  Memory
        # must follow the declared chunk size, not what the compressed stream chooses to produce.
        def peak_rss_mb(argv):
            """run a command, return (class, peak resident set of that process in MiB)"""
            pr = subprocess.Popen(["/usr/bin/time", "-f", "maxrss_kb=%M", "--", bita()] + argv, stdout=subprocess.PIPE,
                                  stderr=subprocess.PIPE, env=dict(os.environ, RUST_BACKTRACE="0"))
            try:
                so, se = pr.communicate(timeout=300)
            except subprocess.TimeoutExpired:
                pr.kill()
                return "hang", 0
            mm = re.search(rb"maxrss_kb=(\d+)", se)
            # /usr/bin/time passes the child's status on; a signal shows as 128+n or "Command terminated by signal"
            cls_ = "ok" if pr.returncode == 0 else "abort" if (b"terminated by signal" in se or pr.returncode >= 128) else \
                "panic" if pr.returncode == 101 else "err"
            return cls_, (int(mm.group(1)) // 1024 if mm else 0)
        bomb_mb = 192 if tier == "thorough" else 96
        zeros = W.fresh(".zeros")
        with open(zeros, "wb") as f:
            f.write(bytes(bomb_mb << 20))
        outb = W.fresh(".bomb0.cba")
        cls0, rc0, so0, se0 = run_bita(["compress", "-i", zeros, "--fixed-size", str(bomb_mb << 20), "--compression", "brotli",
                                        "--compression-level", "5", outb], timeout=600)
        os.unlink(zeros)
        if cls0 == "ok":
            bdata = read_file(outb)
            ba = pyfmt.parse_archive(bdata)
            for declared in (1000, 70000):
                bd = pyfmt.decode_dictionary(ba["dict_bytes"])
                bd["chunk_descriptors"][0]["source_size"] = declared
                bd["source_total_size"] = declared
                crafted = pyfmt.build_header(pyfmt.encode_dictionary(bd)) + bdata[ba["header_size"]:]
                cp = W.write(crafted, ".bomb.cba")
                for what, argv in (("clone", ["clone", "--force-create", cp, W.fresh(".bomb.out")]),
                                   ("clone --verify-output", ["clone", "--force-create", "--verify-output", cp, W.fresh(".bomb.out")])):
                    cls_b, rss = peak_rss_mb(argv)
                    R.stat("decompression_bombs")
                    req = "bita %s of a %d byte archive: one chunk declared as %d bytes whose %d stored bytes expand to %d MiB" % (
                        what, len(crafted), declared, ba["dictionary"]["chunk_descriptors"][0]["archive_size"], bomb_mb)
                    if cls_b not in ("ok", "err"):
                        R.fail("crafted-archive-%s" % cls_b, req)
                    if rss > bomb_mb // 2:
                        R.fail("memory-follows-the-compressed-stream-not-the-declared-chunk-size", req + " :: peak resident set %d MiB" % rss)
        else:
            R.note("could not build the decompression bomb: compress %s" % cls0)
        # the same lie at a size the model can replay: 3000 zero bytes stored as a brotli stream, declared
        # smaller (refused: the output limit), exactly, and larger (accepted: the hash decides)
        small_src = bytes(3000)
        c1, sarch, se1, spath = compress_cli(W, small_src, ["--fixed-size", "3000"], 16, "brotli", 5, 1)
        if c1 == "ok" and sarch:
            sa = pyfmt.parse_archive(sarch)
            stored0 = sarch[sa["header_size"]:]
            for declared in (100, 2999, 3000, 3001, 5000):
                sd = pyfmt.decode_dictionary(sa["dict_bytes"])
                sd["chunk_descriptors"][0]["source_size"] = declared
                sd["source_total_size"] = declared
                crafted = pyfmt.build_header(pyfmt.encode_dictionary(sd)) + stored0
                cp = W.write(crafted, ".sbomb.cba")
                outp = W.fresh(".sbomb.out")
                cls_s, rc_s, so_s, se_s = clone_cli(W, cp, outp)
                got_s = read_file(outp)
                R.stat("declared_size_lies_replayed_by_the_model")
                if cls_s not in ("ok", "err"):
                    R.fail("crafted-archive-%s" % cls_s, "bita clone: chunk of 3000 zeros declared as %d bytes" % declared)
                mreq = "clone-ro - - %s - - %s:%s" % (hx(crafted), hx(stored0), hx(small_src))
                R.case(mreq, None)
                R.cases[-1] = (mreq, "result=%s out=%s" % (cls_s if cls_s in ("ok", "panic") else "err", digest(got_s or b"")))
        # a server that keeps sending: the client must not consume (buffer) data without bound
        for script in ([("flood", 96 << 20)], ["full", ("flood", 96 << 20)], ["full", "full", ("flood", 96 << 20)]):
            srv = httpd.Server(arch, script=list(script))
            outp = W.fresh(".out")
            cls, rc, so, se = clone_cli(W, srv.url(), outp, timeout=120)
            time.sleep(0.2)
            srv.close()
            R.stat("flood_scripts")
            for wanted, sent in srv.flood_sent:
                if sent > wanted + (16 << 20):
                    R.fail("client-buffered-unbounded-server-data", "bita clone with server script %r: asked for %d bytes, took %d" % (script, wanted, sent))
            if cls not in ("ok", "err"):
                R.fail("server-behaviour-%s" % cls, "bita clone with server script %r" % (script,))
    finally:
        W.close()
    return R.as_dict()
