"""L2 harness: drives the real `bita` binary (built from /repo's working tree with the hooks on) as a
subprocess, observes it from outside (exit status, files, strace, an LD_PRELOAD write-fault shim,
a scripted HTTP server) and compares with the Lean model (`clone`, `compress` requests) and with
the properties' own oracles.

Every suite returns dict(cases=[(request, implementation answer)], stats={}, oracle=[(what, request)], notes=[]).
Every random choice comes from random.Random(seed): a disagreement replays exactly.
"""
import hashlib
import os
import random
import shutil
import subprocess
import tempfile
import time

from . import core

BITA = None


def bita():
    return core.bita_bin()


def fnv1a(b):
    h = 2166136261
    for x in b:
        h = ((h ^ x) * 16777619) & 0xFFFFFFFF
    return h


def digest(b):
    return "%d:%d" % (len(b), fnv1a(b))


def hx(b):
    return b.hex() if b else "-"


class Work:
    """A scratch directory under /verif/work, removed on close."""

    def __init__(self, name):
        os.makedirs(core.WORK, exist_ok=True)
        self.dir = tempfile.mkdtemp(prefix="l2-%s-" % name, dir=core.WORK)
        self.n = 0

    def path(self, name):
        return os.path.join(self.dir, name)

    def fresh(self, suffix=""):
        self.n += 1
        return os.path.join(self.dir, "f%d%s" % (self.n, suffix))

    def write(self, data, suffix=""):
        p = self.fresh(suffix)
        with open(p, "wb") as f:
            f.write(data)
        return p

    def close(self):
        shutil.rmtree(self.dir, ignore_errors=True)


def classify(rc):
    if rc == 0:
        return "ok"
    if rc == 101:
        return "panic"
    if rc in (134, -6):
        return "abort"
    if rc is None:
        return "hang"
    if rc < 0:
        return "signal%d" % (-rc)
    return "err"


def run_bita(args, stdin_data=None, env=None, timeout=120, preload=None, strace_log=None, cwd=None):
    e = dict(os.environ)
    e["RUST_BACKTRACE"] = "0"
    e.pop("RUST_LOG", None)
    if env:
        e.update(env)
    if preload:
        e["LD_PRELOAD"] = preload
    cmd = [bita()] + args
    if strace_log:
        cmd = ["strace", "-f", "-qq", "-y", "-s", "0", "-e",
               "trace=open,openat,creat,unlink,unlinkat,rename,renameat,renameat2,truncate,ftruncate,write,pwrite64,read,pread64,lseek,mkdir,mkdirat,link,linkat,symlink,symlinkat",
               "-o", strace_log] + cmd
    try:
        p = subprocess.run(cmd, input=stdin_data, stdout=subprocess.PIPE, stderr=subprocess.PIPE, env=e,
                           timeout=timeout, cwd=cwd, stdin=None if stdin_data is not None else subprocess.DEVNULL)
        return classify(p.returncode), p.returncode, p.stdout, p.stderr
    except subprocess.TimeoutExpired:
        return "hang", None, b"", b""


# ------------------------------------------------------------------------------ scenario generation

def gen_source(rng, max_len=6000):
    kind = rng.randrange(10)
    if kind == 0:
        return b""
    if kind == 1:
        return bytes([rng.randrange(256)])
    n = rng.randrange(1, max_len)
    if kind == 2:
        return bytes(n)
    if kind == 3:
        return bytes([rng.randrange(256)]) * n
    if kind in (4, 5):
        # repetitive blocks: duplicates in the source
        block = rng.randbytes(rng.randrange(8, 200))
        out = b""
        while len(out) < n:
            out += block if rng.random() < 0.6 else rng.randbytes(rng.randrange(1, 100))
        return out[:n]
    if kind == 6:
        # low entropy text-ish
        return bytes(rng.choice(b"ab \n") for _ in range(n))
    return rng.randbytes(n)


def gen_config(rng, small=True):
    """Returns (cli args, model config token, window)."""
    if rng.random() < 0.12:
        n = rng.choice([1, 2, 7, 64, 100, 1000])
        return ["--fixed-size", str(n)], "F:%d" % n, 0
    algo = rng.choice(["RollSum", "BuzHash"])
    bits = rng.randrange(1, 9 if small else 16)
    avg = 1 << (bits + 1)
    w = rng.choice([1, 2, 3, 4, 8, 16, 31, 64])
    mn = rng.choice([0, 1, avg // 4, avg // 2, avg, min(avg, w), min(avg, w + 1)])
    mx = max(avg, w, mn) + rng.choice([0, 1, avg, 4 * avg, 16 * avg])
    args = ["--hash-chunking", algo, "--avg-chunk-size", str(avg), "--min-chunk-size", str(mn),
            "--max-chunk-size", str(mx), "--rolling-window-size", str(w)]
    tok = "%s:%d:%d:%d:%d" % ("R" if algo == "RollSum" else "B", bits, mn, mx, w)
    return args, tok, w


def edit_source(rng, src):
    """A related byte string: insertions, deletions, moved and duplicated blocks."""
    b = bytearray(src)
    for _ in range(rng.randrange(1, 5)):
        if not b:
            b += rng.randbytes(rng.randrange(1, 50))
            continue
        i = rng.randrange(len(b))
        k = rng.randrange(4)
        if k == 0:
            b[i:i] = rng.randbytes(rng.randrange(1, 80))
        elif k == 1:
            del b[i:i + rng.randrange(1, 80)]
        elif k == 2:
            j = rng.randrange(len(b))
            blk = b[i:i + rng.randrange(1, 300)]
            b[j:j] = blk
        else:
            j = rng.randrange(len(b))
            n = rng.randrange(1, 300)
            blk = bytes(b[i:i + n])
            del b[i:i + n]
            j = min(j, len(b))
            b[j:j] = blk
    return bytes(b)


def compress_cli(work, src, cfg_args, hash_len=64, compression="none", level=None, buffered=None, md=None,
                 via_stdin=False, out=None, extra=None, timeout=120):
    """Run `bita compress`; returns (class, archive bytes or None, stderr)."""
    out = out or work.fresh(".cba")
    args = ["compress"]
    stdin_data = None
    if via_stdin:
        stdin_data = src
    else:
        args += ["-i", work.write(src, ".src")]
    args += cfg_args + ["--hash-length", str(hash_len), "--compression", compression]
    if level is not None:
        args += ["--compression-level", str(level)]
    if buffered is not None:
        args += ["--buffered-chunks", str(buffered)]
    for k, v in (md or []):
        args += ["--metadata-value", k, v]
    args += (extra or []) + [out]
    cls, rc, so, se = run_bita(args, stdin_data=stdin_data, timeout=timeout)
    data = None
    if os.path.exists(out):
        with open(out, "rb") as f:
            data = f.read()
    return cls, data, se, out


def clone_cli(work, archive_path, out_path, seeds=(), seed_output=False, verify_output=False, force=False,
              pin=None, stdin_seed=None, blockdev=False, extra=None, strace_log=None, preload=None, env=None, timeout=120):
    args = ["clone"]
    if seed_output:
        args.append("--seed-output")
    if verify_output:
        args.append("--verify-output")
    if force:
        args.append("--force-create")
    if pin is not None:
        args += ["--verify-header", pin]
    for s in seeds:
        args += ["--seed", s]
    stdin_data = None
    if stdin_seed is not None:
        args += ["--seed", "-"]
        stdin_data = stdin_seed
    args += (extra or []) + [archive_path, out_path]
    e = dict(env or {})
    if blockdev:
        e["BITA_VERIF_TREAT_OUTPUT_AS_BLOCK_DEV"] = "1"
    return run_bita(args, stdin_data=stdin_data, env=e, timeout=timeout, strace_log=strace_log, preload=preload)


def read_file(p):
    try:
        with open(p, "rb") as f:
            return f.read()
    except FileNotFoundError:
        return None


class Result:
    def __init__(self):
        self.cases, self.stats, self.oracle, self.notes = [], {}, [], []

    def stat(self, k, n=1):
        self.stats[k] = self.stats.get(k, 0) + n

    def case(self, req, ans):
        self.cases.append((req, ans))

    def fail(self, what, req):
        self.oracle.append((what, req))

    def as_dict(self):
        return dict(cases=self.cases, stats=self.stats, oracle=self.oracle, notes=self.notes)


def data_token(b):
    return "h" + b.hex() if b else "-"


# ------------------------------------------------------------------------------ C01 / C12: writers

def lib_compress(work, src, cfg_tok, hash_len, compression, level, buffered, md, frag):
    """The library writer (create_archive) through the harness helper; returns archive bytes."""
    inp = work.write(src, ".src")
    out = work.fresh(".lib.cba")
    mdtok = ",".join("%s:%s" % (k.encode().hex() or "-", v.encode().hex() or "-") for k, v in (md or [])) or "-"
    args = [os.path.join(core.TARGET, "debug", "l1"), "lib-compress", inp, out, cfg_tok, str(hash_len),
            compression, str(level if level is not None else 6), str(buffered or 4), mdtok, str(frag)]
    p = subprocess.run(args, stdout=subprocess.PIPE, stderr=subprocess.PIPE, env=core.env_offline(), timeout=300)
    if p.returncode != 0:
        return None, p.stderr.decode(errors="replace")[-300:]
    return read_file(out), ""


def c01_roundtrip(seed, tier):
    """compress (CLI and library) then clone (CLI): output == source; archive bytes vs the model."""
    rng = random.Random(seed * 1000003 + 1)
    R = Result()
    W = Work("c01")
    try:
        n = 400 if tier == "thorough" else 60
        for i in range(n):
            src = gen_source(rng, 20000 if i % 7 == 0 else 3000)
            cfg_args, cfg_tok, _w = gen_config(rng)
            hash_len = rng.choice([4, 8, 16, 32, 64, rng.randrange(4, 65)])
            compression = rng.choice(["none", "none", "brotli"])
            level = rng.randrange(1, 12) if compression == "brotli" else None
            buffered = rng.choice([1, 2, 3, 8, 64])
            md = [("k%d" % j, rng.choice(["", "v", "héllo", "x" * 40])) for j in range(rng.randrange(0, 3))]
            via_stdin = rng.random() < 0.3
            cls, arch, se, arch_path = compress_cli(W, src, cfg_args, hash_len, compression, level, buffered, md, via_stdin)
            req_desc = "cli-compress %s hl=%d %s/%s buf=%d stdin=%s src=%s" % (
                cfg_tok, hash_len, compression, level, buffered, via_stdin, digest(src))
            R.stat("compress_" + cls)
            R.stat("source_empty" if not src else "source_len_lt_64" if len(src) < 64 else "source_other")
            if cls != "ok" or arch is None:
                R.fail("compress-%s" % cls, req_desc + " :: " + se.decode(errors="replace")[-200:].replace("\n", " | "))
                continue
            # temp file gone, exactly one new file
            tmp = os.path.splitext(arch_path)[0] + "..tmp"
            if os.path.exists(tmp):
                R.fail("temp-file-left-behind", req_desc)
            # the library writer must produce the very same bytes
            lib, err = lib_compress(W, src, cfg_tok, hash_len, compression, level, rng.choice([1, 2, 5, 16]), md,
                                    rng.choice([0, 1, 7, 4096]))
            if lib is None:
                R.fail("library-compress-failed", req_desc + " :: " + err)
            elif lib != arch:
                R.fail("cli-and-library-archives-differ", req_desc)
            # model: byte-exact archive (digest) when no codec is involved
            if compression == "none" and len(src) <= 4000:
                mdtok = ",".join("%s:%s" % (hx(k.encode()), hx(v.encode())) for k, v in sorted(dict(md).items())) or "-"
                for writer in ("cli", "lib"):
                    R.case("compress %s %s %d - %s %s -" % (writer, cfg_tok, hash_len, mdtok, data_token(src)),
                           "archive=%s" % digest(arch))
            # clone it (plain), from the local file
            outp = W.fresh(".out")
            c2, rc, so, se2 = clone_cli(W, arch_path, outp, verify_output=rng.random() < 0.5)
            got = read_file(outp)
            R.stat("clone_" + c2)
            if c2 != "ok":
                R.fail("clone-of-own-archive-%s" % c2, req_desc + " :: " + se2.decode(errors="replace")[-200:].replace("\n", " | "))
            elif got != src:
                R.fail("roundtrip-output-differs-from-source", req_desc)
            # the archive records the true size and checksum: via `bita info`
            c3, rc3, so3, se3 = run_bita(["info", arch_path])
            text = (so3 + se3).decode(errors="replace")
            if c3 != "ok":
                R.fail("info-of-own-archive-%s" % c3, req_desc)
            else:
                want_sum = hashlib.blake2b(src).hexdigest()
                if want_sum not in text or ("(%d bytes)" % len(src) not in text and "Source size: %d bytes" % len(src) not in text):
                    R.fail("archive-does-not-record-source-size-or-checksum", req_desc)
            # model clone of the real archive (small, uncompressed)
            if compression == "none" and len(arch) <= 6000:
                R.case("clone-ro - - %s - - -" % hx(arch), "result=%s out=%s" % (c2, digest(got or b"")))
        R.stat("cases", n)
    finally:
        W.close()
    return R.as_dict()


# ------------------------------------------------------------------------------ strace parsing

import re

_LINE = re.compile(r"^(\d+)\s+(\w+)\((.*)\)\s+=\s+(-?\d+|\?)(.*)$")


def parse_strace(path):
    """Returns a list of (pid, syscall, args, ret) with unfinished/resumed lines stitched."""
    pending = {}
    events = []
    try:
        lines = open(path, errors="replace").read().split("\n")
    except FileNotFoundError:
        return events
    for ln in lines:
        m = re.match(r"^(\d+)\s+(.*)$", ln)
        if not m:
            continue
        pid, rest = m.group(1), m.group(2)
        if rest.endswith("<unfinished ...>"):
            pending[pid] = rest[: -len("<unfinished ...>")].rstrip()
            continue
        r = re.match(r"^<\.\.\. (\w+) resumed>\s*(.*)$", rest)
        if r and pid in pending:
            rest = pending.pop(pid) + r.group(2)
        m2 = _LINE.match(pid + " " + rest)
        if not m2:
            continue
        ret = m2.group(4)
        events.append((pid, m2.group(2), m2.group(3), None if ret == "?" else int(ret)))
    return events


def _unescape(s):
    """strace -xx string literal -> bytes"""
    out = bytearray()
    i = 0
    while i < len(s):
        if s[i] == "\\" and i + 3 < len(s) + 1 and s[i + 1] == "x":
            out.append(int(s[i + 2:i + 4], 16))
            i += 4
        else:
            out.append(ord(s[i]))
            i += 1
    return bytes(out)


def file_ops(events, path):
    """Operations on one path: opens with flags, writes (offset, data or length), reads (offset, length),
    truncates, unlinks, renames.  Positions are reconstructed from lseek/read/write on the fd."""
    ops = []
    pos = {}   # fd text -> position
    tag = "<%s>" % path
    for pid, sc, args, ret in events:
        if sc in ("open", "openat", "creat") and '"%s"' % path in args:
            flags = re.findall(r"O_[A-Z_]+", args)
            ops.append(("open", sorted(flags), ret))
            if ret is not None and ret >= 0:
                pos[str(ret)] = 0
        elif sc in ("unlink", "unlinkat") and '"%s"' % path in args:
            ops.append(("unlink", ret))
        elif sc in ("rename", "renameat", "renameat2") and '"%s"' % path in args:
            ops.append(("rename", args, ret))
        elif sc == "truncate" and '"%s"' % path in args:
            ops.append(("truncate", int(args.split(",")[-1]), ret))
        elif tag in args.split(",")[0]:
            fd = args.split("<")[0].strip()
            if sc == "lseek":
                if ret is not None and ret >= 0:
                    pos[fd] = ret
            elif sc == "write":
                m = re.search(r'"((?:[^"\\]|\\.)*)"', args)
                data = _unescape(m.group(1)) if m else None
                n = ret if ret is not None else 0
                if ret is not None and ret >= 0:
                    ops.append(("write", pos.get(fd, 0), n, data[:n] if data is not None and len(data) >= n else None))
                    pos[fd] = pos.get(fd, 0) + n
                else:
                    ops.append(("write-failed", pos.get(fd, 0), ret))
            elif sc == "pwrite64":
                off = int(args.split(",")[-1])
                ops.append(("write", off, ret or 0, None))
            elif sc == "read":
                if ret is not None and ret > 0:
                    ops.append(("read", pos.get(fd, 0), ret))
                    pos[fd] = pos.get(fd, 0) + ret
            elif sc == "pread64":
                ops.append(("read", int(args.split(",")[-1]), ret or 0))
            elif sc == "ftruncate":
                ops.append(("truncate", int(args.split(",")[-1]), ret))
    return ops


def merge_writes(ops):
    """Consecutive writes that continue each other are one write_all."""
    out = []
    for op in ops:
        if op[0] != "write":
            continue
        _, off, n, data = op
        if out and out[-1][0] + out[-1][1] == off and out[-1][3]:
            po, pn, pd, _c = out[-1]
            out[-1] = [po, pn + n, (pd + data) if (pd is not None and data is not None) else None, True]
        else:
            out.append([off, n, data, True])
    return [(o, n, d) for o, n, d, _ in out]


def touched_paths(events):
    """Every path opened for writing / created / truncated / removed / renamed / linked: {path: set(intents)}."""
    res = {}
    for pid, sc, args, ret in events:
        if ret is not None and ret < 0:
            continue
        if sc in ("open", "openat", "creat"):
            m = re.search(r'"([^"]*)"', args)
            if not m:
                continue
            flags = set(re.findall(r"O_[A-Z_]+", args))
            if sc == "creat" or flags & {"O_WRONLY", "O_RDWR", "O_CREAT", "O_TRUNC", "O_APPEND"}:
                res.setdefault(m.group(1), set()).add("write-open:" + "|".join(sorted(flags & {"O_WRONLY", "O_RDWR", "O_CREAT", "O_EXCL", "O_TRUNC", "O_APPEND"})))
        elif sc in ("unlink", "unlinkat", "rename", "renameat", "renameat2", "truncate", "mkdir", "mkdirat", "link", "linkat", "symlink", "symlinkat"):
            for m in re.finditer(r'"([^"]*)"', args):
                res.setdefault(m.group(1), set()).add(sc)
    return res


# ------------------------------------------------------------------------------ scenario helper

def ensure_shim():
    so = os.path.join(core.TARGET, "iofault.so")
    src = os.path.join(core.VERIF, "harness", "shim", "iofault.c")
    if not os.path.exists(so) or os.path.getmtime(so) < os.path.getmtime(src):
        os.makedirs(core.TARGET, exist_ok=True)
        subprocess.run(["cc", "-shared", "-fPIC", "-O1", "-o", so, src, "-ldl", "-lpthread"], check=True)
    return so


SMALL_CFGS = [
    (["--hash-chunking", "RollSum", "--avg-chunk-size", "64", "--min-chunk-size", "16", "--max-chunk-size", "512", "--rolling-window-size", "16"], "R:5:16:512:16"),
    (["--hash-chunking", "BuzHash", "--avg-chunk-size", "32", "--min-chunk-size", "8", "--max-chunk-size", "256", "--rolling-window-size", "8"], "B:4:8:256:8"),
    (["--hash-chunking", "RollSum", "--avg-chunk-size", "16", "--min-chunk-size", "0", "--max-chunk-size", "64", "--rolling-window-size", "4"], "R:3:0:64:4"),
    (["--fixed-size", "100"], "F:100"),
]


def make_archive(W, rng, src, compression="none", hash_len=None, cfg=None):
    cfg_args, cfg_tok = cfg or rng.choice(SMALL_CFGS)
    hash_len = hash_len or rng.choice([8, 16, 64])
    cls, arch, se, path = compress_cli(W, src, cfg_args, hash_len, compression, 6 if compression == "brotli" else None, rng.choice([1, 4, 16]))
    if cls != "ok":
        raise core.Failure("bita compress failed while preparing a scenario: %s" % se.decode(errors="replace")[-300:])
    return arch, path, cfg_tok, hash_len


# ------------------------------------------------------------------------------ C12: determinism

def c12_determinism(seed, tier):
    rng = random.Random(seed * 1000003 + 12)
    R = Result()
    W = Work("c12")
    try:
        n = 60 if tier == "thorough" else 12
        runs = 8 if tier == "thorough" else 5
        for i in range(n):
            src = gen_source(rng, 200000 if i % 4 == 0 else 8000)
            cfg_args, cfg_tok, _ = gen_config(rng)
            hash_len = rng.choice([4, 16, 64])
            compression = rng.choice(["none", "brotli", "brotli"])
            level = rng.randrange(1, 12) if compression == "brotli" else None
            archives = []
            desc = "compress %s hl=%d %s/%s src=%s" % (cfg_tok, hash_len, compression, level, digest(src))
            for r in range(runs):
                buffered = [1, 2, 3, 8, 64, 16, 5, 32][r % 8]
                env = {}
                if r % 3 == 1:
                    env["TOKIO_WORKER_THREADS"] = "1"
                elif r % 3 == 2:
                    env["TOKIO_WORKER_THREADS"] = "16"
                out = W.fresh(".cba")
                args = ["compress"] + cfg_args + ["--hash-length", str(hash_len), "--compression", compression,
                                                   "--buffered-chunks", str(buffered)]
                if level is not None:
                    args += ["--compression-level", str(level)]
                stdin_data = None
                if r % 2 == 1:
                    stdin_data = src            # delivered through a pipe
                else:
                    args += ["-i", W.write(src, ".src")]
                args.append(out)
                prefix = ["taskset", "-c", "0"] if r % 4 == 3 else []
                e = dict(os.environ, RUST_BACKTRACE="0", **env)
                p = subprocess.run(prefix + [bita()] + args, input=stdin_data, stdout=subprocess.PIPE, stderr=subprocess.PIPE, env=e,
                                   stdin=None if stdin_data is not None else subprocess.DEVNULL, timeout=300)
                R.stat("runs")
                if p.returncode != 0:
                    R.fail("compress-%s" % classify(p.returncode), desc)
                    continue
                archives.append(read_file(out))
                os.unlink(out)
            lib, err = lib_compress(W, src, cfg_tok, hash_len, compression, level, 3, [], rng.choice([0, 1, 13, 65536]))
            if lib is not None:
                archives.append(lib)
            if len(set(archives)) > 1:
                R.fail("archives-differ-between-runs", desc + " sizes=%r" % sorted(set(len(a) for a in archives)))
            R.stat("inputs")
            if compression == "none" and len(src) <= 4000 and archives:
                R.case("compress cli %s %d - - %s -" % (cfg_tok, hash_len, data_token(src)), "archive=%s" % digest(archives[0]))
    finally:
        W.close()
    return R.as_dict()


# ------------------------------------------------------------------------------ C14: refusals

def c14_refusals(seed, tier):
    rng = random.Random(seed * 1000003 + 14)
    R = Result()
    W = Work("c14")
    try:
        reps = 3 if tier == "thorough" else 1
        for rep in range(reps):
            src = gen_source(rng, 3000) or b"x" * 300
            arch, apath, cfg_tok, hl = make_archive(W, rng, src)
            hc = pyfmt_header_checksum(arch)
            bad = bytearray(arch)
            bad[20 + rng.randrange(10)] ^= 0x10           # inside the dictionary: header checksum fails
            bad_path = W.write(bytes(bad), ".bad.cba")
            junk_path = W.write(rng.randbytes(200), ".junk.cba")
            for out_state in ("absent", "regular-short", "regular-long", "blockdev-big", "blockdev-small"):
                for flags in ("none", "force", "seed-output"):
                    for akind in ("valid", "corrupt-header", "not-an-archive", "pin-mismatch", "pin-prefix", "pin-ok"):
                        outp = W.fresh(".out")
                        prior = None
                        if out_state == "regular-short":
                            prior = rng.randbytes(max(1, len(src) // 3))
                        elif out_state == "regular-long":
                            prior = rng.randbytes(len(src) + 500)
                        elif out_state == "blockdev-big":
                            prior = rng.randbytes(len(src) + 64)
                        elif out_state == "blockdev-small":
                            prior = rng.randbytes(max(1, len(src) - 10))
                        if prior is not None:
                            with open(outp, "wb") as f:
                                f.write(prior)
                        blockdev = out_state.startswith("blockdev")
                        ap = {"valid": apath, "corrupt-header": bad_path, "not-an-archive": junk_path}.get(akind, apath)
                        pin = None
                        if akind == "pin-mismatch":
                            pin = ("%02x" % (hc[0] ^ 1)) + hc.hex()[2:]
                        elif akind == "pin-prefix":
                            pin = hc.hex()[:rng.choice([0, 2, 8, 126])]
                        elif akind == "pin-ok":
                            pin = hc.hex()
                        cls, rc, so, se = clone_cli(W, ap, outp, seed_output=(flags == "seed-output"), force=(flags == "force"),
                                                    pin=pin, blockdev=blockdev)
                        after = read_file(outp)
                        # the property's expectation
                        archive_refusal = akind in ("corrupt-header", "not-an-archive", "pin-mismatch", "pin-prefix")
                        exists_refusal = prior is not None and flags == "none"
                        small_dev = out_state == "blockdev-small"
                        refused = archive_refusal or exists_refusal or small_dev
                        req = "cli-clone out=%s flags=%s archive=%s" % (out_state, flags, akind)
                        R.stat("refused" if refused else "proceeds")
                        if refused:
                            if cls == "ok":
                                R.fail("refusal-expected-but-clone-succeeded", req)
                            elif cls != "err":
                                R.fail("refusal-ended-in-%s" % cls, req)
                            if after != prior:
                                R.fail("refused-operation-changed-the-output", req)
                            if archive_refusal and prior is None and after is not None:
                                R.fail("refused-for-archive-reasons-but-output-created", req)
                        else:
                            if cls != "ok":
                                R.fail("clone-should-proceed-but-%s" % cls, req + " :: " + se.decode(errors="replace")[-150:].replace("\n", "|"))
                            elif blockdev:
                                if after is None or after[:len(src)] != src or len(after) != len(prior):
                                    R.fail("block-device-output-wrong", req)
                            elif after != src:
                                R.fail("output-differs-from-source", req)
                        # the model's verdict on the same table row
                        R.case("cli-clone %s %s %s" % (out_state, flags, akind),
                               "result=%s output=%s" % ("ok" if cls == "ok" else "refused" if cls == "err" else cls,
                                                        "untouched" if after == prior else "source" if (after is not None and after[:len(src)] == src) else "other"))
                        if os.path.exists(outp):
                            os.unlink(outp)
            # compress: existing output without / with --force-create; invalid input
            for exists in (False, True):
                for force in (False, True):
                    outp = W.fresh(".cba")
                    prior = None
                    if exists:
                        prior = rng.randbytes(100)
                        with open(outp, "wb") as f:
                            f.write(prior)
                    cls, data, se, _ = compress_cli(W, src, SMALL_CFGS[0][0], 64, "none", out=outp, extra=["--force-create"] if force else None)
                    req = "cli-compress exists=%s force=%s" % (exists, force)
                    refused = exists and not force
                    tmp = os.path.splitext(outp)[0] + "..tmp"
                    if refused:
                        if cls == "ok" or read_file(outp) != prior:
                            R.fail("compress-refusal-changed-the-output", req)
                        if os.path.exists(tmp):
                            R.fail("refused-compress-left-temp-file", req)
                    elif cls != "ok":
                        R.fail("compress-should-proceed-but-%s" % cls, req)
                    R.case("cli-compress %s %s" % ("present" if exists else "absent", "force" if force else "none"),
                           "result=%s output=%s" % ("ok" if cls == "ok" else "refused", "untouched" if read_file(outp) == prior else "archive"))
                    R.stat("compress_rows")
    finally:
        W.close()
    return R.as_dict()


def pyfmt_header_checksum(arch):
    from . import pyfmt
    return pyfmt.parse_archive(arch)["header_checksum"]


# ------------------------------------------------------------------------------ C16: files touched

def _interesting(paths, workdir):
    """Write-intent operations; everything outside the working directory that is only opened read-only never shows up here."""
    return {p: v for p, v in paths.items() if not p.startswith("/dev/") and not p.startswith("/proc/")}


def c16_files(seed, tier):
    rng = random.Random(seed * 1000003 + 16)
    R = Result()
    W = Work("c16")
    try:
        n = 10 if tier == "thorough" else 3
        for i in range(n):
            src = gen_source(rng, 5000) or b"y" * 500
            arch, apath, cfg_tok, hl = make_archive(W, rng, src, compression=rng.choice(["none", "brotli"]))
            seed1 = W.write(edit_source(rng, src), ".seed1")
            seed2 = W.write(rng.randbytes(700), ".seed2")
            srv = None
            modes = ["plain", "seeds", "stdin-seed", "in-place", "in-place+seeds", "verify", "pin", "http", "http+seed", "force", "blockdev"]
            for mode in modes:
                sub = os.path.join(W.dir, "m%d_%s" % (i, mode.replace("+", "_")))
                os.makedirs(sub)
                outp = os.path.join(sub, "output.img")
                before = set(os.listdir(sub))
                kw = {}
                archive_arg = apath
                if mode in ("in-place", "in-place+seeds", "force", "blockdev"):
                    with open(outp, "wb") as f:
                        f.write(edit_source(rng, src) + (b"\0" * (len(src) + 100) if mode == "blockdev" else b""))
                    before = set(os.listdir(sub))
                if mode in ("seeds", "in-place+seeds", "http+seed"):
                    kw["seeds"] = [seed1, seed2]
                if mode == "stdin-seed":
                    kw["stdin_seed"] = edit_source(rng, src)
                if mode.startswith("in-place"):
                    kw["seed_output"] = True
                if mode == "verify":
                    kw["verify_output"] = True
                if mode == "pin":
                    kw["pin"] = pyfmt_header_checksum(arch).hex()
                if mode == "force":
                    kw["force"] = True
                if mode == "blockdev":
                    kw["blockdev"] = True
                    kw["seed_output"] = True
                if mode.startswith("http"):
                    from . import httpd
                    srv = httpd.Server(arch)
                    archive_arg = srv.url()
                log = os.path.join(W.dir, "strace_%d_%s.log" % (i, mode.replace("+", "_")))
                cls, rc, so, se = clone_cli(W, archive_arg, outp, strace_log=log, **kw)
                if srv:
                    srv.close()
                    srv = None
                ev = parse_strace(log)
                tp = _interesting(touched_paths(ev), W.dir)
                req = "cli-clone-files mode=%s" % mode
                R.stat("clone_modes")
                if cls != "ok":
                    R.fail("clone-%s-in-mode" % cls, req + " :: " + se.decode(errors="replace")[-150:].replace("\n", "|"))
                others = {p: sorted(v) for p, v in tp.items() if p != outp}
                if others:
                    R.fail("clone-touched-a-file-other-than-the-output", req + " :: " + repr(others)[:300])
                if any(not x.startswith("write-open") for x in tp.get(outp, [])):
                    R.fail("clone-removed-renamed-or-truncated-by-path", req + " :: " + repr(sorted(tp.get(outp))))
                after = set(os.listdir(sub))
                if after - before - {"output.img"}:
                    R.fail("clone-left-extra-files", req + " :: " + repr(sorted(after - before)))
                intents = ";".join(sorted(tp.get(outp, [])))
                R.case("cli-clone-files %s" % mode, "output=%s others=%d" % (intents, len(others)))
                os.unlink(log)
            # compress: exactly one new file, temp created then removed
            for mode in ("file-input", "stdin-input", "force"):
                sub = os.path.join(W.dir, "c%d_%s" % (i, mode))
                os.makedirs(sub)
                outp = os.path.join(sub, "out.cba")
                if mode == "force":
                    open(outp, "wb").write(b"old")
                before = set(os.listdir(sub))
                log = os.path.join(W.dir, "strace_c%d_%s.log" % (i, mode))
                args = ["compress"] + SMALL_CFGS[i % len(SMALL_CFGS)][0] + ["--compression", "none"]
                inp = W.write(src, ".src")
                stdin_data = None
                if mode == "stdin-input":
                    stdin_data = src
                else:
                    args += ["-i", inp]
                if mode == "force":
                    args.append("--force-create")
                args.append(outp)
                cls, rc, so, se = run_bita(args, stdin_data=stdin_data, strace_log=log)
                ev = parse_strace(log)
                tp = _interesting(touched_paths(ev), W.dir)
                tmp = os.path.join(sub, "out..tmp")
                req = "cli-compress-files mode=%s" % mode
                R.stat("compress_modes")
                if cls != "ok":
                    R.fail("compress-%s" % cls, req)
                after = set(os.listdir(sub))
                if after - before - {"out.cba"} or "out.cba" not in after:
                    R.fail("compress-did-not-leave-exactly-the-archive", req + " :: " + repr(sorted(after)))
                others = {p: sorted(v) for p, v in tp.items() if p not in (outp, tmp)}
                if others:
                    R.fail("compress-touched-unexpected-files", req + " :: " + repr(others)[:300])
                if "unlink" not in " ".join(tp.get(tmp, [])):
                    R.fail("temp-file-not-removed", req + " :: " + repr(sorted(tp.get(tmp, []))))
                R.case("cli-compress-files %s" % ("force" if mode == "force" else "plain"),
                       "output=%s temp=%s others=%d" % (";".join(sorted(tp.get(outp, []))), ";".join(sorted(tp.get(tmp, []))), len(others)))
                os.unlink(log)
    finally:
        W.close()
    return R.as_dict()
