"""Regenerates /verif/MANIFEST.json from vlib/props.py (run: python3 -m vlib.manifest)."""
import json
import os
import subprocess

from . import core, props

NOT_YET = "not yet claimed in this revision: model and theorems under construction (DESIGN.md section 9); to be claimed, not declared inapplicable"


def main():
    checks = []
    for pid in sorted(props.PROPS):
        P = props.PROPS[pid]
        checks.append(dict(
            property_id=pid,
            quick_cmd="./check %s --tier quick" % pid,
            thorough_cmd="./check %s --tier thorough" % pid,
            evidence_file="/verif/evidence/%s.json" % pid,
            replay_cmd_template="./check %s --replay {path}" % pid,
            engine="lean+harness",
            level_claimed=dict(category=P["level"], text=P["level_text"], design_ref=P.get("design_ref", "DESIGN.md 5")),
            level_note=P["level_note"],
            technique=P["technique"],
        ))
    claimed = sorted(props.PROPS)
    na = [dict(property_id="C%02d" % i, reason=props.NOT_APPLICABLE.get("C%02d" % i, NOT_YET))
          for i in range(1, 18) if "C%02d" % i not in claimed]
    try:
        commits = subprocess.run(["git", "-C", core.REPO, "log", "--format=%h %s"], stdout=subprocess.PIPE, text=True).stdout.split("\n")
        hook_commits = [c.split(" ")[0] for c in commits if c.split(" ", 1)[-1].startswith("verif hook")]
    except Exception:
        hook_commits = []
    m = dict(
        version=1,
        setup_cmd="./setup.sh",
        hooks=dict(guard="--cfg oll3_bita_verif",
                   enable="RUSTFLAGS='--cfg oll3_bita_verif' (set by the checks when they build the harness and bita into /verif/.target)",
                   baseline_off_cmd="cd /repo && cargo test --workspace --no-fail-fast --offline",
                   source_commits=hook_commits, add_only=True),
        engines=[
            dict(name="lean", path="/verif/lean", serves_properties=claimed,
                 kind_free_text="Lean 4.33 lake project: hand-written executable model (Bita/Model), independent specs (Bita/Spec), proofs "
                                "(Bita/Proofs), property theorems (Bita/Props), constants/facts regenerated from /repo on every run (Bita/Gen), "
                                "line-protocol driver (Driver)"),
            dict(name="l1", path="/verif/harness", serves_properties=claimed,
                 kind_free_text="Rust harness calling the real bitar library in-process with scripted transports/files; emits request/answer "
                                "lines that are diffed against the Lean driver"),
            dict(name="check", path="/verif/check", serves_properties=claimed,
                 kind_free_text="python3 orchestrator: extractor, lake build + axiom audit + forbidden-token scan, cargo build, correspondence "
                                "diff, property oracles, violation search, evidence"),
        ],
        checks=checks,
        not_applicable=na,
        notes="Technique: machine-checked proof in Lean 4 about a hand-written model, tied to the source by differential correspondence runs "
              "and an extractor of constants/syntactic facts; see DESIGN.md. Genuine defects found and repaired are listed in known_findings.json.",
    )
    with open(os.path.join(core.VERIF, "MANIFEST.json"), "w") as f:
        json.dump(m, f, indent=1)
    print("MANIFEST.json: %d checks, %d not claimed" % (len(checks), len(na)))


if __name__ == "__main__":
    main()
