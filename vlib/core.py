"""Core of the /verif check orchestrator (python3, stdlib only).

A check of property P does, in this order:
  1. extractor: regenerate lean/Bita/Gen/*.lean from /repo's working tree
  2. Lean: build Bita.Props.P (+ the driver), audit axioms and forbidden tokens
  3. Rust: build the harness (and the bita binary when needed) against /repo's working tree
  4. correspondence: run the suites of P, pipe every request to the Lean driver, diff answers;
     judge every case by the property's own oracle on the implementation
  5. verdict, evidence, exit status
"""
import json
import os
import re
import subprocess
import sys
import time

VERIF = os.path.dirname(os.path.dirname(os.path.abspath(__file__)))
REPO = os.environ.get("VERIF_REPO", "/repo")
LEAN = os.path.join(VERIF, "lean")
TARGET = os.path.join(VERIF, ".target")
WORK = os.path.join(VERIF, "work")
ALLOWED_AXIOMS = {"propext", "Classical.choice", "Quot.sound"}
FORBIDDEN = [r"\bsorry\b", r"\badmit\b", r"^\s*axiom\s", r"\bnative_decide\b", r"\bbv_decide\b",
             r"\bimplemented_by\b", r"\bunsafe\s", r"maxHeartbeats\s+0\b"]


def env_offline():
    e = dict(os.environ)
    e["CARGO_NET_OFFLINE"] = "true"
    e["CARGO_TARGET_DIR"] = TARGET
    e["RUST_BACKTRACE"] = "0"
    e.setdefault("RUSTFLAGS", "--cfg oll3_bita_verif")
    return e


def run(cmd, cwd=None, env=None, timeout=None, input_=None):
    t0 = time.time()
    p = subprocess.run(cmd, cwd=cwd, env=env, timeout=timeout, input=input_,
                       stdout=subprocess.PIPE, stderr=subprocess.STDOUT, text=True)
    return p.returncode, p.stdout, time.time() - t0


class Failure(Exception):
    """Machinery failure that is attributed to the property (proof or tie no longer checks)."""

    def __init__(self, what, detail=""):
        super().__init__(what)
        self.what = what
        self.detail = detail


# ---------------------------------------------------------------------------------- Lean side

def strip_lean_comments(src):
    out = []
    i, n, depth = 0, len(src), 0
    while i < n:
        if src.startswith("/-", i):
            depth += 1
            i += 2
        elif depth and src.startswith("-/", i):
            depth -= 1
            i += 2
        elif depth:
            if src[i] == "\n":
                out.append("\n")
            i += 1
        elif src.startswith("--", i):
            while i < n and src[i] != "\n":
                i += 1
        else:
            out.append(src[i])
            i += 1
    return "".join(out)


def lean_sources():
    res = []
    for root in ("Bita", "Driver"):
        for d, _, fs in os.walk(os.path.join(LEAN, root)):
            for f in fs:
                if f.endswith(".lean"):
                    res.append(os.path.join(d, f))
    res.append(os.path.join(LEAN, "Bita.lean"))
    return sorted(res)


def import_closure(module):
    """Lean source files (inside /verif/lean) that `module` transitively imports, itself included."""
    seen, todo = set(), [module]
    while todo:
        m = todo.pop()
        if m in seen:
            continue
        path = os.path.join(LEAN, m.replace(".", "/") + ".lean")
        if not os.path.exists(path):
            continue
        seen.add(m)
        src = strip_lean_comments(open(path).read())
        for imp in re.findall(r"^import\s+([A-Za-z0-9_.]+)", src, re.M):
            if imp.startswith("Bita") or imp.startswith("Driver"):
                todo.append(imp)
    return sorted(os.path.join(LEAN, m.replace(".", "/") + ".lean") for m in seen)


def forbidden_tokens(modules=None):
    hits = []
    paths = lean_sources() if modules is None else sorted(set(sum([import_closure(m) for m in modules], [])))
    for path in paths:
        try:
            src = strip_lean_comments(open(path).read())
        except FileNotFoundError:
            continue
        for ln, line in enumerate(src.split("\n"), 1):
            for pat in FORBIDDEN:
                if re.search(pat, line):
                    hits.append("%s:%d: %s" % (os.path.relpath(path, VERIF), ln, line.strip()[:120]))
    return hits


def theorems_of(module_path, namespace):
    """Names of the theorems stated in a Props module."""
    src = strip_lean_comments(open(module_path).read())
    return ["%s.%s" % (namespace, m) for m in re.findall(r"^theorem\s+([A-Za-z_][A-Za-z0-9_']*)", src, re.M)]


def lean_build(targets):
    rc, out, dt = run(["lake", "build"] + targets, cwd=LEAN, timeout=3600)
    return rc, out, dt


def audit_axioms(pid, theorems):
    """Returns {theorem: [axioms]} using `#print axioms`."""
    os.makedirs(WORK, exist_ok=True)
    path = os.path.join(WORK, "Audit_%s.lean" % pid)
    with open(path, "w") as f:
        f.write("import Bita.Props.%s\n" % pid)
        for t in theorems:
            f.write("#print axioms %s\n" % t)
    rc, out, _ = run(["lake", "env", "lean", path], cwd=LEAN, timeout=1800)
    res = {}
    for m in re.finditer(r"'([^']+)' depends on axioms: \[([^\]]*)\]", out):
        res[m.group(1)] = [a.strip() for a in m.group(2).replace("\n", " ").split(",") if a.strip()]
    for m in re.finditer(r"'([^']+)' does not depend on any axioms", out):
        res[m.group(1)] = []
    if rc != 0:
        raise Failure("axiom audit failed to run", out[-2000:])
    return res


def leanchecker(modules):
    rc, out, dt = run(["lake", "env", "leanchecker"] + modules, cwd=LEAN, timeout=3600)
    return rc, out, dt


# ---------------------------------------------------------------------------------- Rust side

CLIOPTS_BUILD_ERROR = None


CLIOPTS_MAIN = '''//! GENERATED by vlib/core.py (write_cli_mods) before every build of the harness. Do not edit.
//! The option layer of the `bita` command line, in process: the sources of the binary crate are compiled into
//! this harness binary as they are in /repo's working tree (one `#[path]` module per `mod x;` of /repo/src/main.rs),
//! so `cli::parse_opts` and `string_utils::*` can be called directly.  A separate binary, so that a change to the
//! command-line crate that this arrangement cannot follow (say, a new crate-root item) affects only the suites that
//! need it.   usage: cliopts opts <quick|thorough>

use bita_verif_harness as h;

@@MODS@@
pub const PKG_NAME: &str = "bita";
pub const PKG_VERSION: &str = "verif";

mod opts;

fn main() {
    let args: Vec<String> = std::env::args().collect();
    if args.len() < 3 || args[1] != "opts" {
        eprintln!("usage: cliopts opts <quick|thorough>");
        std::process::exit(2);
    }
    let thorough = args[2] == "thorough";
    let seed = h::seed_from_env();
    h::silence_panics();
    let rt = tokio::runtime::Builder::new_multi_thread().worker_threads(2).enable_all().build().unwrap();
    rt.block_on(opts::opts(seed, thorough));
}
'''


def write_cli_mods():
    """harness/src/bin/cliopts/main.rs: one `#[path]` module per `mod x;` of /repo/src/main.rs."""
    import re
    try:
        main_rs = open(os.path.join(REPO, "src", "main.rs")).read()
    except OSError:
        main_rs = ""
    names = re.findall(r"^(?:pub )?mod (\w+);", main_rs, re.M)
    lines = []
    for n in names:
        f = os.path.join(REPO, "src", n + ".rs")
        if not os.path.exists(f):
            f = os.path.join(REPO, "src", n, "mod.rs")
        lines += ["#[allow(dead_code, unused_imports, unused_macros, unused_variables)]", '#[path = "%s"]' % f, "mod %s;" % n]
    content = CLIOPTS_MAIN.replace("@@MODS@@", "\n".join(lines))
    path = os.path.join(VERIF, "harness", "src", "bin", "cliopts", "main.rs")
    try:
        if open(path).read() == content:
            return
    except OSError:
        pass
    with open(path, "w") as fh:
        fh.write(content)


def cargo_build_harness():
    global CLIOPTS_BUILD_ERROR
    lock_src = os.path.join(REPO, "Cargo.lock")
    lock_dst = os.path.join(VERIF, "harness", "Cargo.lock")
    if not os.path.exists(lock_dst):
        import shutil
        shutil.copy(lock_src, lock_dst)
    write_cli_mods()
    rc, out, dt = run(["cargo", "build", "--offline", "--bin", "l1"], cwd=os.path.join(VERIF, "harness"),
                      env=env_offline(), timeout=3600)
    if rc == 0:
        # the binary that compiles the command-line crate's sources in: a failure here concerns only the suites that use it
        rc2, out2, dt2 = run(["cargo", "build", "--offline", "--bin", "cliopts"], cwd=os.path.join(VERIF, "harness"),
                             env=env_offline(), timeout=3600)
        CLIOPTS_BUILD_ERROR = out2[-3000:] if rc2 != 0 else None
        dt += dt2
    return rc, out, dt


def cargo_build_bita(release=False):
    """Build the real CLI from /repo's working tree into /verif/.target/repo (hooks on)."""
    e = env_offline()
    e["CARGO_TARGET_DIR"] = os.path.join(TARGET, "repo")
    cmd = ["cargo", "build", "--offline", "--bin", "bita"]
    if release:
        cmd.append("--release")
    rc, out, dt = run(cmd, cwd=REPO, env=e, timeout=3600)
    return rc, out, dt


def bita_bin(release=False):
    return os.path.join(TARGET, "repo", "release" if release else "debug", "bita")


# ---------------------------------------------------------------------------------- driver

def driver_path():
    return os.path.join(LEAN, ".lake", "build", "bin", "bitamodel")


def _ask_driver_one(requests):
    p = subprocess.run([driver_path()], input="\n".join(requests) + "\n", stdout=subprocess.PIPE,
                       stderr=subprocess.PIPE, text=True, timeout=7200)
    if p.returncode != 0:
        raise Failure("model driver crashed", p.stderr[-2000:])
    ans = p.stdout.split("\n")
    if ans and ans[-1] == "":
        ans.pop()
    if len(ans) != len(requests):
        raise Failure("model driver answered %d of %d requests" % (len(ans), len(requests)), p.stderr[-2000:])
    return ans


def ask_driver(requests, jobs=None):
    """Pipe request lines to the Lean driver (several processes in parallel), return answer lines."""
    if not requests:
        return []
    jobs = jobs or min(14, max(1, len(requests) // 8))
    if jobs == 1:
        return _ask_driver_one(requests)
    # interleave so that expensive requests (often generated together) spread over the workers
    parts = [requests[i::jobs] for i in range(jobs)]
    from concurrent.futures import ThreadPoolExecutor
    with ThreadPoolExecutor(max_workers=jobs) as ex:
        results = list(ex.map(_ask_driver_one, parts))
    out = [None] * len(requests)
    for i, r in enumerate(results):
        out[i::jobs] = r
    return out


def run_suite(binary, args, seed, timeout=None, extra_env=None):
    """Run a harness suite; returns dict(cases=[(req, impl)], stats={}, oracle=[(what, req)]).
    A suite that does not end within the watchdog time (an implementation that hangs or spins) is
    killed and reported as an oracle failure on the last input it announced."""
    e = env_offline()
    e["VERIF_SEED"] = str(seed)
    if extra_env:
        e.update(extra_env)
    if timeout is None:
        timeout = 6 * 3600 if "thorough" in args else 1500
    proc = subprocess.Popen([binary] + args, stdout=subprocess.PIPE, stderr=subprocess.PIPE, text=True, env=e)
    hung = False
    try:
        out, err = proc.communicate(timeout=timeout)
    except subprocess.TimeoutExpired:
        hung = True
        proc.kill()
        out, err = proc.communicate()

    class P:
        pass
    p = P()
    p.stdout, p.stderr, p.returncode = out or "", err or "", proc.returncode
    cases, stats, oracle, notes = [], {}, [], []
    last_try = None
    for line in p.stdout.split("\n"):
        f = line.split("\t")
        if f[0] == "TRY" and len(f) >= 2:
            last_try = f[1]
        elif f[0] == "CASE" and len(f) >= 3:
            cases.append((f[1], f[2]))
        elif f[0] == "STAT" and len(f) >= 3:
            try:
                stats[f[1]] = stats.get(f[1], 0) + int(f[2])
            except ValueError:
                stats[f[1]] = f[2]
        elif f[0] == "ORACLE" and len(f) >= 3:
            oracle.append((f[1], f[2]))
        elif f[0] == "NOTE":
            notes.append("\t".join(f[1:]))
    if hung:
        oracle.append(("implementation-hung(suite killed after %d s)" % timeout, last_try or " ".join(args)))
        return dict(cases=cases, stats=stats, oracle=oracle, notes=notes)
    if p.returncode != 0:
        if last_try is not None:
            # the process died while the implementation was working on an announced input
            oracle.append(("implementation-aborted-or-killed(exit %d)" % p.returncode, last_try))
            return dict(cases=cases, stats=stats, oracle=oracle, notes=notes)
        raise Failure("harness suite %s %s exited with %d" % (os.path.basename(binary), " ".join(args), p.returncode),
                      (p.stderr or "")[-3000:])
    return dict(cases=cases, stats=stats, oracle=oracle, notes=notes)
