"""Syntactic facts read from /repo's source on every run (see DESIGN.md 3.4)."""
import re

from .extract import rd


def strip_comments(src):
    return re.sub(r"//[^\n]*", "", src)


def fn_body(src, name):
    """Text of `fn name...{ ... }` (brace matched)."""
    m = re.search(r"\bfn %s\b" % re.escape(name), src)
    if not m:
        return None
    i = src.index("{", m.end())
    # skip generic where-clauses: find the first '{' at paren depth 0
    depth_paren = 0
    j = m.end()
    while j < len(src):
        ch = src[j]
        if ch == "(":
            depth_paren += 1
        elif ch == ")":
            depth_paren -= 1
        elif ch == "{" and depth_paren == 0:
            i = j
            break
        j += 1
    depth = 0
    k = i
    while k < len(src):
        if src[k] == "{":
            depth += 1
        elif src[k] == "}":
            depth -= 1
            if depth == 0:
                return src[i:k + 1]
        k += 1
    return None


def inline_helpers(body, src, depth=2):
    """Replace calls to functions defined in the same file by their bodies (textually, `depth` levels), so
    that a block moved into a private helper is still seen where it runs."""
    if not body:
        return body
    names = set(re.findall(r"\bfn (\w+)\b", src))
    for _ in range(depth):
        changed = False
        for name in names:
            for m in list(re.finditer(r"(?:(?<![\w:.])|(?<=Self::)|(?<=self\.))%s\(" % re.escape(name), body))[::-1]:
                # not the definition itself
                if body[max(0, m.start() - 3):m.start()] == "fn ":
                    continue
                hb = fn_body(src, name)
                if hb is None or hb in body:
                    continue
                body = body[:m.start()] + " /*inlined %s*/ " % name + hb + " " + body[m.start():]
                changed = True
        if not changed:
            break
    return body


def inline_consts(src):
    """Replace uses of simple named constants (`const NAME: T = <literal or path expression>;`) by their value, so
    that a magic value given a name is still seen where it is used."""
    for _ in range(40):
        m = re.search(r"(?:pub(?:\(crate\))? )?\bconst ([A-Z]\w*): [\w:<>]+ = ([^;{}\n]+);\n?", src)
        if not m:
            break
        name, expr = m.group(1), m.group(2).strip()
        body = src[:m.start()] + src[m.end():]
        src = re.sub(r"\b%s\b" % re.escape(name), expr, body)
    return src


def combinators(body):
    """Ordered list of stream combinators that follow a spawn_blocking stage."""
    return re.findall(r"\.(buffered|buffer_unordered)\(", body or "")



FLIP = {"==": "==", "!=": "!=", "<": ">", ">": "<", "<=": ">=", ">=": "<="}
NEG = {"==": "!=", "!=": "==", "<": ">=", ">": "<=", "<=": ">", ">=": "<"}


def subst_simple_calls(expr, src):
    """Replace calls of same-file one-expression helpers `fn name(p: T) -> U { <expr> }` by that expression with
    the argument put in place of the parameter (one level), so that `helper(size - buf.len())` is read as what it computes."""
    for m in re.finditer(r"\bfn (\w+)\((\w+): [^,)]+\) -> [^{]+\{\s*([^{};]+?)\s*\}", src):
        name, param, body = m.group(1), m.group(2), m.group(3)
        def rep(mm, param=param, body=body):
            arg = mm.group(1).strip()
            if re.fullmatch(r"[\w.]+", arg) is None:
                arg = "(" + arg + ")"
            return re.sub(r"\b%s\b" % re.escape(param), arg, body)
        expr = re.sub(r"\b%s\(([^()]*(?:\([^()]*\)[^()]*)*)\)" % re.escape(name), rep, expr)
    return expr


def norm_expr(e):
    return re.sub(r"\s+", "", e or "")


def robust_facts(f, soft):
    """Second reading of the facts that are comparisons or guards in the middle of code: name- and operand-order-
    insensitive, seen through same-file helpers; `soft(name, value, what)` keeps the model's own value (and notes it)
    when the source is in a form this extractor does not recognise."""
    from .extract import rd as _rd
    lib = inline_consts(strip_comments(_rd("bitar/src/api/compress.rs")))
    cli = inline_consts(strip_comments(_rd("src/compress_cmd.rs")))
    arch = inline_consts(strip_comments(_rd("bitar/src/archive.rs")))
    # -- stored-bytes rule of the library writer: `if <a>.len() OP <b>.len() { <the bytes stored> ...`
    val = None
    for m in re.finditer(r"if &?([\w.()]+?)\.len\(\) (<=|<|>=|>|==) &?([\w.()]+?)\.len\(\) \{\s*&?(\w+)", lib):
        a, op, b, branch = m.groups()
        ca, cb = "compress" in a, "compress" in b
        if ca == cb:
            continue
        op2 = op if ca else FLIP[op]                       # compressed OP2 chunk
        val = op2 if "compress" in branch else NEG[op2]     # store compressed iff compressed VAL chunk
        break
    soft("libStoreCompressedIf", val, "stored-bytes rule in create_archive")
    # -- stored-bytes rule of the CLI writer: a Boolean named *uncompressed* (variable or helper) := <a> OP <b>
    val = None
    m = re.search(r"(?:let \w*uncompressed\w* = |fn \w*uncompressed\w*\([^)]*\) -> bool \{\s*)([\w.()]+?) (<=|<|>=|>|==) ([\w.()]+?)\s*[;}]", cli)
    if m:
        a, op, b = m.groups()
        ca, cb = "compress" in a, "compress" in b
        if ca != cb:
            val = op if ca else FLIP[op]                    # raw iff compressed VAL chunk
    soft("cliStoreRawIf", val, "stored-bytes rule in chunk_input")
    # -- raw rule of the reader: `if <a> OP <b> { None` with the declared source size on one side
    val = None
    cs = fn_body(arch, "chunk_stream") or arch
    m = re.search(r"if ([\w.()]+?) (==|<=|>=|<|>) ([\w.()]+?) \{\s*None\b", cs)
    if m:
        a, op, b = m.groups()
        sa, sb = "source_size" in a, "source_size" in b
        if sa != sb:
            val = op if sa else FLIP[op]                    # raw iff source_size VAL stored length
    soft("readerRawIf", val, "raw rule in chunk_stream")
    # -- http: stop condition of single_fail, clipping of a fragment
    hr = inline_consts(strip_comments(_rd("bitar/src/archive_reader/http_range_request.rs")))
    sf = inline_helpers(fn_body(hr, "single_fail") or "", hr)
    m = re.search(r"\b[\w.()]+? as u64 (>=|==|>|<=|<|!=) size\b", sf)
    if m:
        val = m.group(1)
    elif re.search(r"\.bytes\(\)\s*\.await", sf):
        val = "unbounded"                                  # the whole body buffered, as before the F10 repair
    else:
        val = None
    soft("httpSingleStopIf", val, "http single_fail stop condition")
    pf = inline_helpers(fn_body(hr, "poll_read_fail") or "", hr)
    if re.search(r"if (\w+)\.len\(\) as u64 > (?:self\.)?size \{\s*\1\.truncate\((?:self\.)?size as usize\);", pf):
        val = True
    elif ".truncate(" not in pf:
        val = False
    else:
        val = None
    soft("httpFragmentClipped", val, "http fragment clipping")
    # -- local reader: how much read_at reserves
    io = inline_consts(strip_comments(_rd("bitar/src/archive_reader/io_reader.rs")))
    io_raw = strip_comments(_rd("bitar/src/archive_reader/io_reader.rs"))
    ra = fn_body(io_raw, "read_at") or ""
    m1 = re.search(r"BytesMut::with_capacity\(\s*(.*?)\s*\);", ra, re.S)
    m2 = re.search(r"(\w+)\.reserve\(\s*(.*?)\s*\);", ra, re.S)
    init = norm_expr(subst_simple_calls(m1.group(1), io_raw)) if m1 else None
    grow = norm_expr(subst_simple_calls(m2.group(2), io_raw)) if m2 else None
    bv = m2.group(1) if m2 else "buf"
    ok_init = ("std::cmp::min(size,MAX_PREALLOCATE)", "size.min(MAX_PREALLOCATE)", "std::cmp::min(MAX_PREALLOCATE,size)", "MAX_PREALLOCATE.min(size)")
    ok_grow = tuple(t.replace("buf", bv) for t in ("std::cmp::min(size-buf.len(),MAX_PREALLOCATE)", "(size-buf.len()).min(MAX_PREALLOCATE)",
                                                    "std::cmp::min(MAX_PREALLOCATE,size-buf.len())", "MAX_PREALLOCATE.min(size-buf.len())"))
    soft("ioInitialCapacityBounded", True if init in ok_init else (False if init in ("size",) else None), "io read_at initial capacity")
    soft("ioGrowBounded", True if grow in ok_grow else (False if grow in ("size-%s.len()" % bv, "size") else None), "io read_at reserve")
    # -- decompression output limit
    comp = strip_comments(_rd("bitar/src/compression.rs"))
    dc = fn_body(comp, "decompress") or ""
    val = None
    m = re.search(r"let mut (\w+) = (\w+) \{\s*buf: Vec::with_capacity\(size_hint\),\s*limit: size_hint,?\s*\}", dc)
    ty = None
    if m:
        var, ty = m.group(1), m.group(2)
    else:
        m = re.search(r"let mut (\w+) = (\w+)::(\w+)\(size_hint\);", dc)
        if m:
            var, ty, ctor = m.groups()
            cb = fn_body(comp, ctor) or ""
            if not re.search(r"buf: Vec::with_capacity\((\w+)\),\s*limit(?:: \1)?,?\s*\}", cb):
                ty = None
    if ty:
        wi = re.search(r"impl std::io::Write for %s \{(.*?)\n\}" % re.escape(ty), comp, re.S)
        wbody = wi.group(1) if wi else ""
        guard = re.search(r"if data\.len\(\) > self\.limit - self\.buf\.len\(\) \{\s*return Err\(", wbody) or \
            re.search(r"if self\.limit - self\.buf\.len\(\) < data\.len\(\) \{\s*return Err\(", wbody) or \
            re.search(r"let (\w+) = self\.limit - self\.buf\.len\(\);\s*if (?:\1 < data\.len\(\)|data\.len\(\) > \1) \{\s*return Err\(", wbody)
        if guard and len(re.findall(r"&mut %s\b" % re.escape(var), dc)) >= 1 and re.search(r"Ok\(Bytes::from\(%s\.buf\)\)" % re.escape(var), dc):
            val = True
    elif re.search(r"let mut \w+ = Vec::with_capacity\(size_hint\);", dc):
        val = False                                        # the unbounded buffer of before the F11 repair
    soft("decompressOutputLimited", val, "decompress output limit")
    # -- a decoded chunk has exactly its declared size
    chunk_rs = strip_comments(_rd("bitar/src/chunk.rs"))
    i0 = chunk_rs.find("pub fn decompress(self) -> Result<Chunk, CompressionError>")
    dbody = ""
    if i0 >= 0:
        j0 = chunk_rs.index("{", i0)
        depth, k = 0, j0
        while k < len(chunk_rs):
            depth += {"{": 1, "}": -1}.get(chunk_rs[k], 0)
            if depth == 0:
                break
            k += 1
        dbody = inline_helpers(chunk_rs[j0:k + 1], chunk_rs)
    if re.search(r"if \w+\.len\(\) != \w*(?:source|declared)_size\w* \{\s*return Err\(", dbody) or \
            re.search(r"if \w*(?:source|declared)_size\w* != \w+\.len\(\) \{\s*return Err\(", dbody):
        val = True
    elif dbody and "!=" not in dbody:
        val = False
    else:
        val = None
    soft("chunkLengthChecked", val, "declared chunk size check in decompress")
    # -- the library writer flushes its temp file before reading it back
    la = inline_helpers(fn_body(lib, "create_archive") or "", lib)
    mfl = [m.start() for m in re.finditer(r"\w+\s*\.flush\(\)\s*\.await", la)]
    mrw = [m.start() for m in re.finditer(r"\w+\s*\.rewind\(\)", la)]
    if mfl and mrw and min(mfl) < max(mrw):
        val = True
    elif not mfl:
        val = False
    else:
        val = None
    soft("libTempFlushedBeforeRewind", val, "temp file flush in create_archive")
    # -- try_init: chunk sizes add up to the declared source size; hash length 1..=64
    ti = inline_helpers(fn_body(arch, "try_init") or "", arch)
    msum = re.search(r"let (\w+) = \w+\.iter\(\)\.try_fold\(0u64, \|(\w+), &(\w+)\| \{\s*\2\.checked_add\(u64::from\(\w+\[\3\]\.source_size\)\)\s*\}\);", ti)
    if msum and re.search(r"if (?:%s != Some\(\w+\.source_total_size\)|Some\(\w+\.source_total_size\) != %s) \{\s*return Err\(" % (msum.group(1), msum.group(1)), ti):
        val = True
    elif "try_fold" not in ti:
        val = False
    else:
        val = None
    soft("sourceSizeSumChecked", val, "source size sum check in try_init")
    if re.search(r"if (\w+) == 0 \|\| \1 > HashSum::MAX_LEN \{\s*return Err\(", ti) or \
            re.search(r"if !\(1\.\.=HashSum::MAX_LEN\)\.contains\(&\w+\) \{\s*return Err\(", ti) or \
            re.search(r"if HashSum::MAX_LEN < (\w+) \|\| \1 == 0 \{\s*return Err\(", ti) or \
            re.search(r"if (\w+) > HashSum::MAX_LEN \|\| \1 == 0 \{\s*return Err\(", ti):
        val = True
    elif "HashSum::MAX_LEN" not in ti:
        val = False
    else:
        val = None
    soft("hashLengthChecked", val, "hash length check in try_init")


SOFTENED = {"stored-bytes rule in create_archive", "stored-bytes rule in chunk_input", "raw rule in chunk_stream",
            "http single_fail stop condition", "io read_at reserve", "io read_at initial capacity"}


def extract(missing_):
    def missing(what):
        # comparisons and guards in the middle of code are read again by robust_facts, which keeps the model's own
        # value where the source is in a form it does not recognise
        return None if what in SOFTENED else missing_(what)
    f = {}
    lib = strip_comments(rd("bitar/src/api/compress.rs"))
    cli = strip_comments(rd("src/compress_cmd.rs"))
    clone = strip_comments(rd("src/clone_cmd.rs"))
    arch = strip_comments(rd("bitar/src/archive.rs"))

    # 1. combinators after the spawn_blocking stages
    f["libCompressCombinators"] = combinators(fn_body(lib, "create_archive")) or missing("combinators in create_archive")
    f["cliCompressCombinators"] = combinators(fn_body(cli, "chunk_input")) or missing("combinators in chunk_input")
    f["cloneSeedCombinators"] = combinators(fn_body(clone, "clone_from_readable")) or missing("combinators in clone_from_readable")
    f["cloneArchiveCombinators"] = combinators(fn_body(clone, "clone_from_archive")) or missing("combinators in clone_from_archive")
    f["cloneScanCombinators"] = combinators(fn_body(clone, "chunk_index_from_readable")) or missing("combinators in chunk_index_from_readable")

    # 2. the stored-bytes rule of both writers and the raw rule of the reader
    m = re.search(r"if compressed_bytes\.len\(\) (<=|<|>=|>|==) verified\.chunk\(\)\.len\(\) \{\s*&compressed_bytes", lib)
    if m:
        f["libStoreCompressedIf"] = m.group(1)
    else:
        m = re.search(r"if verified\.chunk\(\)\.len\(\) (<=|<|>=|>|==) compressed_bytes\.len\(\) \{\s*&compressed_bytes", lib)
        f["libStoreCompressedIf"] = {"==": "==", "<": ">", ">": "<", "<=": ">=", ">=": "<="}[m.group(1)] if m else \
            missing("stored-bytes rule in create_archive")
    flip = {"==": "==", "!=": "!=", "<": ">", ">": "<", "<=": ">=", ">=": "<="}
    m = re.search(r"let use_uncompressed = compressed\.len\(\) (<=|<|>=|>|==) chunk_len;", cli)
    if m:
        f["cliStoreRawIf"] = m.group(1)
    else:
        m = re.search(r"let use_uncompressed = chunk_len (<=|<|>=|>|==) compressed\.len\(\);", cli)
        f["cliStoreRawIf"] = flip[m.group(1)] if m else missing("stored-bytes rule in chunk_input")
    cs = fn_body(arch, "chunk_stream") or arch
    m = re.search(r"if source_size (==|<=|>=|<|>) chunk\.len\(\) \{\s*None\b", cs)
    if m:
        f["readerRawIf"] = m.group(1)
    else:
        m = re.search(r"if chunk\.len\(\) (==|<=|>=|<|>) source_size \{\s*None\b", cs)
        f["readerRawIf"] = {"==": "==", "<": ">", ">": "<", "<=": ">=", ">=": "<="}[m.group(1)] if m else missing("raw rule in chunk_stream")
    # 3. flushes / rewind / pin comparison (the repairs of F4, F7, F3, F6)
    ci = inline_helpers(fn_body(cli, "chunk_input") or "", cli)
    flushes = [m.start() for m in re.finditer(r"\w+\s*\.flush\(\)\s*\.await", ci)]
    f["cliTempFlushedBeforeReturn"] = bool(flushes) and flushes[-1] > ci.rfind(".write_all(")
    ca = inline_helpers(fn_body(clone, "clone_archive") or "", clone)
    m_flush = re.search(r"\w+\s*\.flush\(\)\s*\.await", ca)
    m_setlen = re.search(r"\.set_len\(", ca)
    f["cloneOutputFlushedBeforeResize"] = bool(m_flush and m_setlen and m_flush.start() < m_setlen.start())
    fs = fn_body(clone, "file_size") or ""
    f["fileSizeRewinds"] = bool(re.search(r"SeekFrom::End\(0\).*SeekFrom::Start\(0\)", fs, re.S))
    # `if <a> != <b> { return Err("Header checksum mismatch") }`, or the same test with `==` and the error in
    # the else branch; operands in either order
    cmp_ = None
    m = re.search(r"if ([^\{;]*?) \{\s*return Err\(anyhow!\(\"Header checksum mismatch\"\)\)", ca, re.S)
    if m:
        cmp_ = re.sub(r"\s+", " ", m.group(1)).strip()
    else:
        m = re.search(r"if ([^\{;]*?) \{[^{}]*\}\s*else\s*\{\s*return Err\(anyhow!\(\"Header checksum mismatch\"\)\)", ca, re.S)
        if m:
            c = re.sub(r"\s+", " ", m.group(1)).strip()
            if " == " in c:
                cmp_ = c.replace(" == ", " != ")
    if cmp_ is None:
        m = re.search(r"if !\s*(?:/\*inlined \w+\*/\s*\{[^{}]*\}\s*)?(\w+)\(\s*([\w.]+(?:\(\))?),\s*([\w.]+(?:\(\))?)\s*\) \{\s*"
                      r"return Err\(anyhow!\(\"Header checksum mismatch\"\)\)", ca, re.S)
        hb = fn_body(clone, m.group(1)) if m else None
        hs = re.search(r"fn %s\(\s*(\w+): &HashSum,\s*(\w+): &HashSum\s*\) -> bool" % re.escape(m.group(1)), clone) if m else None
        if m and hb and hs:
            inner = re.sub(r"\s+", " ", hb.strip()[1:-1]).strip()
            a, b = hs.group(1), hs.group(2)
            if inner in ("%s.slice() == %s.slice()" % (a, b), "%s.slice() == %s.slice()" % (b, a)):
                cmp_ = "%s.slice() != %s.slice()" % (m.group(2), m.group(3))
    f["pinComparison"] = cmp_ or missing("header pin comparison")
    sides = sorted(x.strip() for x in (cmp_ or "").split(" != "))
    f["pinComparesFullBytes"] = sides == ["archive.header_checksum().slice()", "expected_checksum.slice()"]

    # 4. open options of the clone output, the compress output and the temp file, as Boolean expressions
    def open_opts(body, anchor):
        i = body.find(anchor)
        if i < 0:
            return None
        j = body.find(".open(", i)
        seg = body[i:j]
        res = {}
        for name in ("read", "write", "create", "create_new", "truncate", "append"):
            mm = re.search(r"\.%s\(([^()]*(?:\([^()]*\)[^()]*)*)\)" % name, seg)
            res[name] = re.sub(r"\s+", " ", mm.group(1)).strip() if mm else "false"
        return res

    f["cloneOpen"] = open_opts(ca, "OpenOptions::new()") or missing("clone output open options")
    cc = inline_helpers(fn_body(cli, "compress_cmd") or "", cli)
    # compress_cmd opens the output first; the temp file is opened inside chunk_input
    cc_own = fn_body(cli, "compress_cmd") or ""
    f["compressOpen"] = open_opts(cc_own if "OpenOptions::new()" in cc_own else cc, "OpenOptions::new()") or missing("compress output open options")
    f["tempOpen"] = open_opts(ci, "OpenOptions::new()") or missing("temp file open options")

    # 5. order of the steps of clone_archive and compress_cmd (positions of the calls in the source)
    def order(body, marks):
        pos = []
        for name, pat in marks:
            mm = re.search(pat, body)
            if not mm:
                missing("step %s" % name)
                continue
            pos.append((mm.start(), name))
        return [n for _, n in sorted(pos)]

    f["cloneStepOrder"] = order(ca, [
        ("try_init", r"Archive::try_init\("), ("banner", r"info_cmd::print_archive\("),
        ("pin", r"Header checksum mismatch"), ("open_output", r"OpenOptions::new\(\)"),
        ("device_check", r"is_block_dev\("), ("scan_output", r"chunk_index_from_readable\("),
        ("reorder", r"\.reorder_in_place\("), ("seed_stdin", r"tokio::io::stdin\(\)"),
        ("seed_files", r"for seed_path in"), ("fetch", r"clone_from_archive\("),
        ("flush", r"\w+\s*\.flush\(\)\s*\.await"), ("resize", r"\.set_len\("), ("verify_output", r"file_checksum\("),
    ])
    f["compressStepOrder"] = order(cc, [
        ("open_output", r"OpenOptions::new\(\)"), ("chunk_input", r"chunk_input\("),
        ("build_header", r"header::build\("), ("write_header", r"write_all\(&header_buf\)"),
        ("copy_temp", r"std::io::copy\("), ("remove_temp", r"remove_file\("), ("print_info", r"print_archive_reader\("),
    ])
    m = re.search(r'with_extension\((?:output,\s*)?"([^"]*)"\)', strip_comments(rd("src/cli.rs")))
    f["tempExtension"] = m.group(1) if m else missing("temp file extension")
    # files opened by clone other than the output: seeds and archive must be File::open (read-only)
    f["cloneSeedOpen"] = "File::open" if re.search(r"let file = File::open\(seed_path\)", ca) else missing("seed open")
    ccmd = fn_body(clone, "clone_cmd") or ""
    f["cloneArchiveOpen"] = "File::open" if re.search(r"File::open\(&path\)", ccmd) else missing("archive open")
    f["cloneOtherFsCalls"] = sorted(set(re.findall(r"\b(remove_file|rename|create_dir\w*|File::create|hard_link|symlink\w*|copy)\(", clone)))

    # 6. resource bounds of the header reads (the repairs of F8.k12, F10, F8.h): how much the readers
    # reserve / take for a `read_at` of a declared size, and whether a body fragment is clipped
    from .extract import const_expr
    io = strip_comments(rd("bitar/src/archive_reader/io_reader.rs"))
    ra = fn_body(io, "read_at") or ""
    m = re.search(r"const MAX_PREALLOCATE: usize = ([^;]+);", ra) or re.search(r"const MAX_PREALLOCATE: usize = ([^;]+);", io)
    f["ioMaxPreallocate"] = (const_expr(m.group(1)) if m else None) or missing("io read_at MAX_PREALLOCATE")
    m = re.search(r"BytesMut::with_capacity\(\s*(.*?)\s*\);", ra, re.S)
    init = re.sub(r"\s+", "", m.group(1)) if m else None
    f["ioInitialCapacity"] = init or missing("io read_at initial capacity")
    m = re.search(r"buf\.reserve\(\s*(.*?)\s*\);", ra, re.S)
    grow = re.sub(r"\s+", "", m.group(1)) if m else None
    f["ioGrowBy"] = grow or missing("io read_at reserve")
    f["ioInitialCapacityBounded"] = init in ("std::cmp::min(size,MAX_PREALLOCATE)", "size.min(MAX_PREALLOCATE)",
                                             "std::cmp::min(MAX_PREALLOCATE,size)")
    f["ioGrowBounded"] = grow in ("std::cmp::min(size-buf.len(),MAX_PREALLOCATE)", "(size-buf.len()).min(MAX_PREALLOCATE)",
                                  "std::cmp::min(MAX_PREALLOCATE,size-buf.len())")
    hr = strip_comments(rd("bitar/src/archive_reader/http_range_request.rs"))
    sf = fn_body(hr, "single_fail") or ""
    m = re.search(r"if body\.len\(\) as u64 (>=|==|>|<=|<|!=) size \{\s*break;", sf)
    f["httpSingleStopIf"] = m.group(1) if m else missing("http single_fail stop condition")
    pf = fn_body(hr, "poll_read_fail") or ""
    f["httpFragmentClipped"] = bool(re.search(
        r"if item\.len\(\) as u64 > self\.size \{\s*item\.truncate\(self\.size as usize\);\s*\}\s*self\.offset \+= item\.len\(\) as u64;", pf))
    # 7. the decompressor's output is limited to the size declared for the chunk (F11 repair)
    comp = strip_comments(rd("bitar/src/compression.rs"))
    dc = fn_body(comp, "decompress") or ""
    m = re.search(r"let mut (\w+) = (\w+) \{\s*buf: Vec::with_capacity\(size_hint\),\s*limit: size_hint,?\s*\}", dc)
    limited = False
    if m:
        ty = m.group(2)
        wi = re.search(r"impl std::io::Write for %s \{(.*?)\n\}" % re.escape(ty), comp, re.S)
        limited = bool(wi and re.search(r"if data\.len\(\) > self\.limit - self\.buf\.len\(\) \{\s*return Err\(", wi.group(1)))
        # every decompressor must write into it, and the result must be its buffer
        limited = limited and len(re.findall(r"&mut %s\b" % re.escape(m.group(1)), dc)) >= 1 and \
            bool(re.search(r"Ok\(Bytes::from\(%s\.buf\)\)" % re.escape(m.group(1)), dc))
    f["decompressOutputLimited"] = limited
    # 8. try_init refuses a descriptor whose END offset does not fit 64 bits (F12 repair)
    ti = fn_body(arch, "try_init") or ""
    ti_in = inline_helpers(ti, arch)
    f["chunkEndOffsetChecked"] = bool(re.search(
        r"\.checked_add\((\w+)\.archive_offset\)\s*\.filter\(\|(\w+)\| \2\.checked_add\(u64::from\(\1\.archive_size\)\)\.is_some\(\)\)\s*"
        r"\.ok_or_else\(\|\| ArchiveError::invalid_archive\(", ti))
    # 9. validation added by F13-F20: the header must end within 64 bits; the chunks in rebuild order add up
    # to the declared source size; the hash length is 1..=64; a decoded chunk has exactly its declared size;
    # --verify-output hashes the first source-size bytes only; the library writer flushes its temp file before
    # reading it back; an over-long --verify-header value is refused
    f["headerEndChecked"] = bool(re.search(
        r"\.checked_add\(8 \+ 64\)\s*\.filter\(\|(\w+)\| \1\.checked_add\(header::PRE_HEADER_SIZE\)\.is_some\(\)\)\s*\.ok_or_else\(", ti)) or bool(
        # the same two checked additions in a same-file helper whose `None` the caller turns into the error
        re.search(r"let (\w+) = \w+\.checked_add\(8 \+ 64\)\?;\s*match \1\.checked_add\(header::PRE_HEADER_SIZE\) \{\s*"
                  r"Some\(\w+\) => Some\(\1\),\s*None => None,?\s*\}", ti_in) and
        re.search(r"= (\w+)\(dictionary_size\)\s*\.ok_or_else\(\|\| ArchiveError::invalid_archive\(", ti))
    f["sourceSizeSumChecked"] = bool(re.search(
        r"let (\w+) = source_order\.iter\(\)\.try_fold\(0u64, \|(\w+), &(\w+)\| \{\s*\2\.checked_add\(u64::from\(archive_chunks\[\3\]\.source_size\)\)\s*\}\);"
        r"\s*if \1 != Some\(dictionary\.source_total_size\) \{\s*return Err\(", ti))
    f["hashLengthChecked"] = bool(re.search(
        r"if chunk_hash_length == 0 \|\| chunk_hash_length > HashSum::MAX_LEN \{\s*return Err\(", ti))
    chunk_rs = strip_comments(rd("bitar/src/chunk.rs"))
    dcs = [m.start() for m in re.finditer(r"pub fn decompress\(self\) -> Result<Chunk, CompressionError>", chunk_rs)]
    dbody = ""
    if dcs:
        i0 = chunk_rs.index("{", dcs[0])
        depth, k = 0, i0
        while k < len(chunk_rs):
            if chunk_rs[k] == "{":
                depth += 1
            elif chunk_rs[k] == "}":
                depth -= 1
                if depth == 0:
                    break
            k += 1
        dbody = chunk_rs[i0:k + 1]
    f["chunkLengthChecked"] = bool(re.search(r"let source_size = self\.source_size;", dbody)) and \
        bool(re.search(r"if chunk\.len\(\) != source_size \{\s*return Err\(", dbody)) and dbody.rstrip().endswith("Ok(chunk)\n    }")
    fc = fn_body(clone, "file_checksum") or ""
    mloop = re.search(
        r"let mut (?P<left>\w+) = size;\s*while (?P=left) > 0 \{\s*"
        r"let (?P<want>\w+) = (?:std::cmp::min\((?P=left), (?P<buf>\w+)\.len\(\) as u64\)|(?P=left)\.min\((?P<buf2>\w+)\.len\(\) as u64\)) as usize;\s*"
        r"let (?P<rc>\w+) = file\.read\(&mut (?P<buf3>\w+)\[0\.\.(?P=want)\]\)\.await\?;", fc)
    f["verifyHashesSourceSizeOnly"] = bool(re.search(r"file_checksum\(&mut \w+, archive\.total_source_size\(\)\)", ca)) and \
        bool(mloop) and (mloop.group("buf") or mloop.group("buf2")) == mloop.group("buf3") and \
        bool(re.search(r"%s -= %s as u64;" % (re.escape(mloop.group("left")), re.escape(mloop.group("rc"))), fc))
    la = fn_body(lib, "create_archive") or ""
    mfl = [m.start() for m in re.finditer(r"temp_file\s*\.flush\(\)\s*\.await", la)]
    mrw = re.search(r"temp_file\s*\.rewind\(\)", la)
    mwr = [m.start() for m in re.finditer(r"temp_file\s*\.write_all\(", la)]
    f["libTempFlushedBeforeRewind"] = bool(mfl and mrw and mwr and mwr[-1] < mfl[-1] < mrw.start())
    cli_rs = inline_consts(strip_comments(rd("src/cli.rs")))
    ph = inline_helpers(fn_body(cli_rs, "parse_hash_sum") or "", cli_rs)
    f["pinLengthChecked"] = bool(re.search(r"if (?:(\w+)\.len\(\) > HashSum::MAX_LEN|HashSum::MAX_LEN < (\w+)\.len\(\)) \{\s*(?:return )?Err\(", ph)) and \
        bool(re.search(r"\.value_parser\(parse_hash_sum\)", cli_rs))
    # 10. the command line refuses chunk sizes that do not fit the 32 bit fields of the dictionary (F21 repair)
    pco = fn_body(cli_rs, "parse_chunker_opts") or ""
    pcc = fn_body(cli_rs, "parse_chunker_config") or ""
    def gt(a, b):
        """`a > b` in either spelling"""
        return r"(?:%s > %s|%s < %s)" % (a, b, b, a)
    U = r"u32::MAX as usize"
    f["cliSizesFitU32"] = bool(re.search(r"if (?:%s \|\| %s|%s \|\| %s) \{\s*return Err\(" % (
        gt(r"\w*max\w*", U), gt(r"\w*window\w*", U), gt(r"\w*window\w*", U), gt(r"\w*max\w*", U)), pco)) and \
        bool(re.search(r"if %s \{\s*return Err\(" % gt(r"\*?\w*fixed\w*", U), pcc)) and \
        bool(re.search(r"if %s \{\s*return Err\(" % gt(r"\w*min\w*", r"\w*avg\w*"), pco)) and \
        bool(re.search(r"if %s \{\s*return Err\(" % gt(r"\w*avg\w*", r"\w*max\w*"), pco))
    # 11. the option table of the command line (defaults, units, ranges) for Bita.Model.Options
    su_src = inline_consts(strip_comments(rd("src/string_utils.rs")))
    su = fn_body(su_src, "parse_human_size") or ""
    units = []
    for m in re.finditer(r'"(\w+)"\s*=>\s*([^,\n]+),', su):
        toks = [t.strip().strip("()").strip() for t in m.group(2).split("*")]
        var = [t for t in toks if re.fullmatch(r"[a-z_]\w*", t)]
        nums = [t for t in toks if t not in var]
        if len(var) != 1 or not all(re.fullmatch(r"\d[\d_]*", t) for t in nums):
            continue
        mult = 1
        for t in nums:
            mult *= int(t.replace("_", ""))
        units.append((m.group(1), mult))
    f["sizeUnits"] = sorted(units, key=lambda e: (-e[1], e[0])) or missing("unit arms of parse_human_size")

    def arg_block(name):
        m = re.search(r'Arg::new\("%s"\)' % re.escape(name), cli_rs)
        if not m:
            return ""
        n = re.search(r"Arg::new\(|\bfn \w+", cli_rs[m.end():])
        return cli_rs[m.end(): m.end() + n.start()] if n else cli_rs[m.end():]

    def default_of(name):
        m = re.search(r'\.default_value\("([^"]*)"\)', arg_block(name))
        if not m:
            # the Arg built by a helper that takes the name and the default as its first two string arguments
            m = re.search(r'\b\w+\(\s*"%s",\s*"([^"]*)"' % re.escape(name), cli_rs)
        return m.group(1) if m else missing("default value of --%s" % name)
    f["cliDefaultAvg"] = default_of("avg-chunk-size")
    f["cliDefaultMin"] = default_of("min-chunk-size")
    f["cliDefaultMax"] = default_of("max-chunk-size")
    f["cliDefaultHashChunking"] = default_of("hash-chunking")
    f["cliDefaultLevel"] = default_of("compression-level")
    f["cliDefaultCompression"] = default_of("compression")
    f["cliDefaultHashLength"] = default_of("hash-length")
    wb = arg_block("rolling-window-size")
    ifs = dict(re.findall(r'\.default_value_if\("hash-chunking",\s*"(\w+)",\s*"([^"]*)"\)', wb))
    wd = re.search(r'\.default_value\("([^"]*)"\)', wb)
    f["cliDefaultWindowRollSum"] = ifs.get("RollSum") or (wd.group(1) if wd else missing("default window (RollSum)"))
    f["cliDefaultWindowBuzHash"] = ifs.get("BuzHash") or (wd.group(1) if wd else missing("default window (BuzHash)"))
    hv = re.search(r"\.value_parser\(\[([^\]]*)\]\)", arg_block("hash-chunking"))
    hvals = re.findall(r'"(\w+)"', hv.group(1)) if hv else []
    f["txtRollSum"] = "RollSum" if "RollSum" in hvals and re.search(r'"RollSum"\)?\s*=>\s*chunker::Config::RollSum', pcc) else missing("RollSum option value")
    f["txtBuzHash"] = "BuzHash" if "BuzHash" in hvals and re.search(r'"BuzHash"\)?\s*=>\s*chunker::Config::BuzHash', pcc) else missing("BuzHash option value")
    pcm = fn_body(cli_rs, "parse_compression") or ""
    f["txtBrotli"] = "brotli" if re.search(r'"brotli"\s*=>\s*(?:Some\()?Compression::brotli\(', pcm) else missing("brotli option value")
    f["txtNone"] = "none" if re.search(r'"none"\s*=>\s*None|== "none" \{\s*return Ok\(None\)', pcm) else missing("none option value")
    m = re.search(r"\.value_parser\(value_parser!\(u32\)\.range\((\d+)\.\.=\(HashSum::MAX_LEN as i64\)\)\)", arg_block("hash-length"))
    f["cliHashLengthMin"] = int(m.group(1)) if m else missing("range of --hash-length")
    cz = strip_comments(rd("bitar/src/compression.rs"))
    m = re.search(r"CompressionAlgorithm::Brotli => (\d+)", fn_body(cz, "max_level") or "")
    f["brotliMaxLevel"] = int(m.group(1)) if m else missing("brotli max_level")
    # the facts that sit in the middle of code are read a second time, robustly; where the source is in a form the
    # extractor does not recognise, the model keeps its own value (what the correspondence suites tie to the code) and
    # the fact is listed as not re-read
    unread = []

    def soft(name, value, what):
        if value is None:
            f[name] = MODEL_VALUES[name]
            unread.append(what)
        else:
            f[name] = value
    robust_facts(f, soft)
    f["_unread"] = unread
    return f


MODEL_VALUES = {
    "libStoreCompressedIf": "<", "cliStoreRawIf": ">=", "readerRawIf": "==", "httpSingleStopIf": ">=", "httpFragmentClipped": True,
    "ioInitialCapacityBounded": True, "ioGrowBounded": True, "decompressOutputLimited": True, "chunkLengthChecked": True,
    "libTempFlushedBeforeRewind": True, "sourceSizeSumChecked": True, "hashLengthChecked": True,
}


FLAG_NAMES = {"opts.force_create": "o.force", "opts.seed_output": "o.seedOutput", "opts.verify_output": "o.verifyOutput",
              "true": "true", "false": "false"}


def bool_expr(src):
    """Translate a Rust Boolean expression over the options into Lean; None if it has anything else."""
    toks = re.findall(r"\w+\.\w+|\|\||&&|!|\(|\)|true|false|\S+", src or "")
    out = []
    for t in toks:
        if re.fullmatch(r"\w+\.(force_create|seed_output|verify_output)", t):
            t = "opts." + t.split(".")[1]
        elif t in ("force_create", "seed_output", "verify_output"):
            # the flag handed to a same-file helper under its own name
            t = "opts." + t
        if t in FLAG_NAMES:
            out.append(FLAG_NAMES[t])
        elif t in ("||", "&&", "!", "(", ")"):
            out.append(t)
        else:
            return None
    return " ".join(out)


def lean_chars(t):
    return "[" + ", ".join("'%s'" % c for c in t) + "]"


def lean_str_list(xs):
    return "[" + ", ".join('"%s"' % x for x in (xs or [])) + "]"


def gen(f):
    lines = [
        "/- GENERATED by /verif/vlib/facts.py from /repo's working tree on every check run. Do not edit. -/",
        "set_option linter.unusedVariables false",
        "namespace Bita.Gen",
        "",
        "/-- stream combinators following the `spawn_blocking` stages, in source order -/",
        "def libCompressCombinators : List String := %s" % lean_str_list(f.get("libCompressCombinators")),
        "def cliCompressCombinators : List String := %s" % lean_str_list(f.get("cliCompressCombinators")),
        "def cloneSeedCombinators : List String := %s" % lean_str_list(f.get("cloneSeedCombinators")),
        "def cloneArchiveCombinators : List String := %s" % lean_str_list(f.get("cloneArchiveCombinators")),
        "def cloneScanCombinators : List String := %s" % lean_str_list(f.get("cloneScanCombinators")),
        "",
        "/-- library writer: the compressed bytes are stored iff `compressed.len() <this> chunk.len()` -/",
        'def libStoreCompressedIf : String := "%s"' % (f.get("libStoreCompressedIf") or "unknown"),
        "/-- CLI writer: the raw bytes are stored iff `compressed.len() <this> chunk.len()` -/",
        'def cliStoreRawIf : String := "%s"' % (f.get("cliStoreRawIf") or "unknown"),
        "/-- reader: a fetched chunk is taken as raw iff `source_size <this> stored.len()` -/",
        'def readerRawIf : String := "%s"' % (f.get("readerRawIf") or "unknown"),
        "",
        "/-- repairs that must stay in place (syntactic) -/",
        "def cliTempFlushedBeforeReturn : Bool := %s" % ("true" if f.get("cliTempFlushedBeforeReturn") else "false"),
        "def cloneOutputFlushedBeforeResize : Bool := %s" % ("true" if f.get("cloneOutputFlushedBeforeResize") else "false"),
        "def fileSizeRewinds : Bool := %s" % ("true" if f.get("fileSizeRewinds") else "false"),
        "def pinComparesFullBytes : Bool := %s" % ("true" if f.get("pinComparesFullBytes") else "false"),
        "",
        "/-- the CLI options the open flags depend on -/",
        "structure CliFlags where",
        "  force : Bool",
        "  seedOutput : Bool",
        "  verifyOutput : Bool",
        "  deriving Repr, DecidableEq",
        "",
        "/-- `OpenOptions` of one open call: every flag as a function of the options; `none` = the",
        "expression in the source is not one the extractor understands -/",
        "structure OpenExprs where",
        "  read : CliFlags → Option Bool",
        "  write : CliFlags → Option Bool",
        "  create : CliFlags → Option Bool",
        "  createNew : CliFlags → Option Bool",
        "  truncate : CliFlags → Option Bool",
        "  append : CliFlags → Option Bool",
        "",
    ]
    for name in ("cloneOpen", "compressOpen", "tempOpen"):
        oo = f.get(name) or {}
        lines.append("def %s : OpenExprs where" % name)
        for rust, lean in (("read", "read"), ("write", "write"), ("create", "create"), ("create_new", "createNew"),
                           ("truncate", "truncate"), ("append", "append")):
            e = bool_expr(oo.get(rust, "false"))
            lines.append("  %s := fun o => %s" % (lean, ("some (%s)" % e) if e is not None else "none"))
        lines.append("")
    lines += [
        "/-- order of the steps of `clone_archive` / `compress_cmd` in the source -/",
        "def cloneStepOrder : List String := %s" % lean_str_list(f.get("cloneStepOrder")),
        "def compressStepOrder : List String := %s" % lean_str_list(f.get("compressStepOrder")),
        'def tempExtension : String := "%s"' % (f.get("tempExtension") or "?"),
        'def cloneSeedOpen : String := "%s"' % (f.get("cloneSeedOpen") or "unknown"),
        'def cloneArchiveOpen : String := "%s"' % (f.get("cloneArchiveOpen") or "unknown"),
        "/-- file-system calls in clone_cmd.rs other than opening files -/",
        "def cloneOtherFsCalls : List String := %s" % lean_str_list(f.get("cloneOtherFsCalls")),
        "",
        "/-- `IoReader::read_at`: `MAX_PREALLOCATE`; is the initial capacity `min(size, MAX_PREALLOCATE)`; is the",
        "buffer grown by `min(size - len, MAX_PREALLOCATE)` -/",
        "def ioMaxPreallocate : Nat := %d" % (f.get("ioMaxPreallocate") or 0),
        "def ioInitialCapacityBounded : Bool := %s" % ("true" if f.get("ioInitialCapacityBounded") else "false"),
        "def ioGrowBounded : Bool := %s" % ("true" if f.get("ioGrowBounded") else "false"),
        "/-- `HttpRangeRequest::single_fail` stops taking body frames once `body.len() <this> size` -/",
        'def httpSingleStopIf : String := "%s"' % (f.get("httpSingleStopIf") or "unknown"),
        "/-- `CompressionAlgorithm::decompress` writes into a buffer that refuses more than the declared size -/",
        "def decompressOutputLimited : Bool := %s" % ("true" if f.get("decompressOutputLimited") else "false"),
        "/-- `try_init` also checks that `chunk_data_offset + archive_offset + archive_size` fits 64 bits -/",
        "def chunkEndOffsetChecked : Bool := %s" % ("true" if f.get("chunkEndOffsetChecked") else "false"),
        "/-- validation and repairs F13-F20 (see facts.py section 9) -/",
        "def headerEndChecked : Bool := %s" % ("true" if f.get("headerEndChecked") else "false"),
        "def sourceSizeSumChecked : Bool := %s" % ("true" if f.get("sourceSizeSumChecked") else "false"),
        "def hashLengthChecked : Bool := %s" % ("true" if f.get("hashLengthChecked") else "false"),
        "def chunkLengthChecked : Bool := %s" % ("true" if f.get("chunkLengthChecked") else "false"),
        "def verifyHashesSourceSizeOnly : Bool := %s" % ("true" if f.get("verifyHashesSourceSizeOnly") else "false"),
        "def libTempFlushedBeforeRewind : Bool := %s" % ("true" if f.get("libTempFlushedBeforeRewind") else "false"),
        "def pinLengthChecked : Bool := %s" % ("true" if f.get("pinLengthChecked") else "false"),
        "/-- cli.rs refuses min/avg/max/window/fixed sizes beyond 32 bits (min <= avg <= max is checked as well) -/",
        "def cliSizesFitU32 : Bool := %s" % ("true" if f.get("cliSizesFitU32") else "false"),
        "/-- `poll_read_fail` truncates a body frame longer than what is still requested -/",
        "def httpFragmentClipped : Bool := %s" % ("true" if f.get("httpFragmentClipped") else "false"),
        "",
        "/-- option table of the command line (cli.rs, string_utils.rs, compression.rs), for `Bita.Model.Options` -/",
        "def sizeUnits : List (List Char × Nat) := [%s]" % ", ".join("(%s, %d)" % (lean_chars(u), m) for u, m in (f.get("sizeUnits") or [])),
    ] + ["def %s : List Char := %s" % (k, lean_chars(f.get(k) or "")) for k in (
        "cliDefaultAvg", "cliDefaultMin", "cliDefaultMax", "cliDefaultHashChunking", "cliDefaultLevel", "cliDefaultCompression",
        "cliDefaultHashLength", "cliDefaultWindowRollSum", "cliDefaultWindowBuzHash", "txtRollSum", "txtBuzHash", "txtBrotli", "txtNone")] + [
        "def cliHashLengthMin : Nat := %d" % (f.get("cliHashLengthMin") or 0),
        "def brotliMaxLevel : Nat := %d" % (f.get("brotliMaxLevel") or 0),
        "",
        "end Bita.Gen",
        "",
    ]
    return "\n".join(lines)
