"""Scripted HTTP/1.1 server on loopback for the CLI-level runs: serves one byte string with Range
support, logs every Range header, and can misbehave per request (script) or for all requests."""
import re
import socket
import threading


class Server:
    def __init__(self, data, script=None, default="full"):
        self.data = data
        self.script = list(script or [])
        self.default = default
        self.flood_sent = []    # bytes actually taken by the client for every "flood" answer
        self.log = []           # (offset, size) or None per request, in order
        self.raw = []
        self.lock = threading.Lock()
        self.sock = socket.socket(socket.AF_INET, socket.SOCK_STREAM)
        self.sock.setsockopt(socket.SOL_SOCKET, socket.SO_REUSEADDR, 1)
        self.sock.bind(("127.0.0.1", 0))
        self.sock.listen(64)
        self.port = self.sock.getsockname()[1]
        self.stop = False
        self.thread = threading.Thread(target=self._serve, daemon=True)
        self.thread.start()

    def url(self):
        return "http://127.0.0.1:%d/archive.cba" % self.port

    def close(self):
        self.stop = True
        try:
            socket.create_connection(("127.0.0.1", self.port), timeout=1).close()
        except OSError:
            pass
        self.sock.close()

    def _serve(self):
        while not self.stop:
            try:
                conn, _ = self.sock.accept()
            except OSError:
                return
            if self.stop:
                conn.close()
                return
            try:
                self._handle(conn)
            except OSError:
                pass
            finally:
                try:
                    conn.close()
                except OSError:
                    pass

    def _handle(self, conn):
        conn.settimeout(5)
        head = b""
        while b"\r\n\r\n" not in head:
            b = conn.recv(4096)
            if not b:
                return
            head += b
        m = re.search(rb"(?im)^range:\s*bytes=(\d+)-(\d+)\s*$", head)
        rng = None
        if m:
            a, b = int(m.group(1)), int(m.group(2))
            if b + 1 >= a:
                rng = (a, b + 1 - a)
        with self.lock:
            self.log.append(rng)
            self.raw.append(m.group(0).decode().strip() if m else "")
            act = self.script.pop(0) if self.script else self.default
        off, size = rng if rng else (0, len(self.data))
        body = self.data[off:off + size]
        kind = act[0] if isinstance(act, tuple) else act

        def send(code, clen, payload):
            conn.sendall(("HTTP/1.1 %d X\r\nContent-Length: %d\r\nContent-Type: application/octet-stream\r\nConnection: close\r\n\r\n" % (code, clen)).encode())
            if payload:
                conn.sendall(payload)
            try:
                conn.shutdown(socket.SHUT_WR)
                conn.settimeout(0.3)
                conn.recv(64)
            except OSError:
                pass

        if kind == "full":
            send(206, len(body), body)
        elif kind == "refuse":
            return
        elif kind == "cut":            # ("cut", n): promise everything, send n bytes
            n = min(act[1], len(body))
            send(206, len(body), body[:n])
        elif kind == "short":          # ("short", n): clean early end after n bytes
            n = min(act[1], len(body))
            send(206, n, body[:n])
        elif kind == "extra":          # ("extra", n): n surplus bytes
            b2 = body + b"\xee" * act[1]
            send(206, len(b2), b2)
        elif kind == "errorpage":      # an error page of exactly the requested length
            page = (b"<html>500</html>" * (len(body) // 16 + 1))[:len(body)]
            send(act[1] if isinstance(act, tuple) else 500, len(page), page)
        elif kind == "wrong":          # right length, wrong bytes
            send(206, len(body), bytes((x ^ 0x5A) for x in body))
        elif kind == "empty":
            send(206, 0, b"")
        elif kind == "flood":          # ("flood", n): the right bytes followed by n bytes nobody asked for
            total = len(body) + act[1]
            sent = 0
            try:
                conn.sendall(("HTTP/1.1 206 X\r\nContent-Length: %d\r\nConnection: close\r\n\r\n" % total).encode())
                conn.sendall(body)
                sent = len(body)
                block = b"\0" * 65536
                conn.settimeout(10)
                while sent < total:
                    conn.sendall(block)
                    sent += len(block)
            except OSError:
                pass
            with self.lock:
                self.flood_sent.append((len(body), sent))
        elif kind == "status":         # plain error status, short body
            send(act[1], 9, b"not found")
        else:
            send(206, len(body), body)
