"""Per-property configuration: Lean module, suites, trusted base, assumptions."""
import os

from . import core

LEAN_TB = [
    "Lean 4.33 kernel (leanchecker re-check in the thorough tier); axioms allowed: propext, Classical.choice, Quot.sound",
    "the hand-written Lean model is tied to /repo only by the correspondence runs recorded in this file "
    "(same requests to the real code and to the model's executable definitions, answers diffed)",
    "the Rust harness, its scripted transports, and the Python orchestrator",
]

# driver commands answered by an independent specification (Bita/Spec/*), not by the model of the code
SPEC_CMDS = {"chunk-spec", "http-spec", "runs", "plan-safe"}

L1 = os.path.join(core.TARGET, "debug", "l1")


def run_extractor(pid):
    from . import extract
    return extract.run(pid)


def run_suite(pid, suite, seed, tier):
    kind = suite[0]
    if kind == "l1":
        return core.run_suite(L1, [suite[1], tier], seed)
    if kind == "py":
        from . import l2
        return getattr(l2, suite[1])(seed, tier)
    raise core.Failure("unknown suite kind %r" % (kind,))


PROPS = {
    "C07": dict(
        module="Bita.Props.C07",
        level="proof",
        required_theorems=["requests_are_maximal_runs", "maximalRuns_spec", "runRequest_bounds"],
        suites=dict(quick=[("l1", "c07")], thorough=[("l1", "c07")]),
        rule="real HttpReader::read_chunks against a scripted loopback HTTP server: every non-empty subset of the "
             "descriptors of small random layouts (exhaustive per layout) plus random larger/unordered lists, random "
             "body fragmentation; compared: ordered (offset,size) of the Range requests, the raw Range header text "
             "against the independent maximal-run spec, and the delivered chunks; a case is distinct by its request line",
        trusted_base=LEAN_TB + ["reqwest/hyper deliver the body bytes the server wrote (not modelled)"],
        assumptions=["no transfer failures (C07's own hypothesis); chunk sizes >= 1; server returns the requested range"],
    ),
    "C08": dict(
        module="Bita.Props.C08",
        level="proof",
        required_theorems=["http_resume", "http_items_exact_prefix", "fetchRun_requests", "io_reader_sound", "io_reader_complete"],
        suites=dict(quick=[("l1", "c08-http"), ("l1", "c08-io")], thorough=[("l1", "c08-http"), ("l1", "c08-io")]),
        rule="HTTP: one run of two chunks with every cut offset x budgets x one/two cuts x cut/clean-end (exhaustive) plus "
             "random chunk lists, budgets 0..3 and random scripts of refuse/cut/early-end/full; local: random range lists "
             "(adjacent, gapped, unordered, beyond EOF) under random scripts of short reads, Pending, errors and empty reads; "
             "compared: items, errors and Range log against the model and against the run-level spec",
        trusted_base=LEAN_TB + ["how reqwest/hyper surface a refused connection, a body cut short of Content-Length and a clean "
                                "early end (observed through the scripted server, not modelled)"],
        assumptions=["a server that, when it answers, returns the bytes of the requested range; chunk sizes >= 1",
                     "theorems are about the state-machine model; partial with respect to the HTTP stack itself"],
    ),
}
