"""Per-property configuration: Lean module, suites, trusted base, assumptions."""
import os

from . import core

LEAN_TB = [
    "Lean 4.33 kernel (leanchecker re-check in the thorough tier); axioms allowed: propext, Classical.choice, Quot.sound",
    "the hand-written Lean model is tied to /repo only by the correspondence runs recorded in this file "
    "(same requests to the real code and to the model's executable definitions, answers diffed)",
    "the Rust harness, its scripted transports, and the Python orchestrator",
]

# driver commands answered by an independent specification (Bita/Spec/*), not by the model of the code
SPEC_CMDS = {"chunk-spec", "http-spec", "runs", "plan-safe"}

NOT_APPLICABLE = {}

L1 = os.path.join(core.TARGET, "debug", "l1")


def run_extractor(pid):
    from . import extract
    return extract.run(pid)


def run_suite(pid, suite, seed, tier):
    kind = suite[0]
    if kind == "l1":
        return core.run_suite(L1, [suite[1], tier], seed)
    if kind == "py":
        from . import l2
        return getattr(l2, suite[1])(seed, tier)
    raise core.Failure("unknown suite kind %r" % (kind,))


PROPS = {
    "C07": dict(
        level_text="Lean 4 theorem requests_are_maximal_runs: for every chunk list, retry budget and body fragmentation, the range "
                   "requests of the model of HttpReader::read_chunks are exactly the maximal runs of adjacent chunks (independent spec "
                   "maximalRuns, itself proved lossless, contiguous and maximal), one request per run with first-byte/last-byte bounds; "
                   "tied to the code by differential runs of the real HttpReader against a scripted HTTP server (every subset of small "
                   "archives exhaustively + random lists).",
        level_note="Trusted: Lean kernel; hand-written model of http_reader.rs/http_range_request.rs tied by correspondence only; "
                   "reqwest/hyper not modelled; hypothesis: no transfer failure, chunk sizes >= 1, honest server.",
        technique="Lean 4 proof (refinement of the reader state machine to a run-level spec, induction over script and chunk list) + differential correspondence",
        design_ref="DESIGN.md 5/C07",
        module="Bita.Props.C07",
        level="proof",
        required_theorems=["requests_are_maximal_runs", "maximalRuns_spec", "runRequest_bounds"],
        suites=dict(quick=[("l1", "c07")], thorough=[("l1", "c07")]),
        rule="real HttpReader::read_chunks against a scripted loopback HTTP server: every non-empty subset of the "
             "descriptors of small random layouts (exhaustive per layout) plus random larger/unordered lists, random "
             "body fragmentation; compared: ordered (offset,size) of the Range requests, the raw Range header text "
             "against the independent maximal-run spec, and the delivered chunks; a case is distinct by its request line",
        trusted_base=LEAN_TB + ["reqwest/hyper deliver the body bytes the server wrote (not modelled)"],
        assumptions=["no transfer failures (C07's own hypothesis); chunk sizes >= 1; server returns the requested range"],
    ),
    "C08": dict(
        level_text="Lean 4 theorems: http_resume (the HTTP chunk reader model equals the run-level resume specification for every chunk "
                   "list, budget and failure script), http_items_exact_prefix (exact prefix, then at most one error), fetchRun_requests "
                   "(each re-request ends at the run end and starts at the first missing byte), io_reader_sound / io_reader_complete "
                   "(local reader exact under any short-read/Pending/error script). Tied to the code by differential runs against a "
                   "scripted HTTP server (every cut offset x budgets exhaustively for a two-chunk run, random scripts) and a scripted file.",
        level_note="Trusted: Lean kernel; hand-written models tied by correspondence; how reqwest/hyper surface refusals, cut bodies and "
                   "early ends is observed, not modelled (partial w.r.t. the HTTP stack); read_at retries from scratch (not a chunk transfer).",
        technique="Lean 4 proof (invariant of the reader state machine by induction on the failure script) + differential correspondence",
        design_ref="DESIGN.md 5/C08",
        module="Bita.Props.C08",
        level="proof",
        required_theorems=["http_resume", "http_items_exact_prefix", "fetchRun_requests", "io_reader_sound", "io_reader_complete"],
        suites=dict(quick=[("l1", "c08-http"), ("l1", "c08-io")], thorough=[("l1", "c08-http"), ("l1", "c08-io")]),
        rule="HTTP: one run of two chunks with every cut offset x budgets x one/two cuts x cut/clean-end (exhaustive) plus "
             "random chunk lists, budgets 0..3 and random scripts of refuse/cut/early-end/full; local: random range lists "
             "(adjacent, gapped, unordered, beyond EOF) under random scripts of short reads, Pending, errors and empty reads; "
             "compared: items, errors and Range log against the model and against the run-level spec",
        trusted_base=LEAN_TB + ["how reqwest/hyper surface a refused connection, a body cut short of Content-Length and a clean "
                                "early end (observed through the scripted server, not modelled)"],
        assumptions=["a server that, when it answers, returns the bytes of the requested range; chunk sizes >= 1",
                     "theorems are about the state-machine model; partial with respect to the HTTP stack itself"],
    ),
    "C09": dict(
        level_text="Lean 4 theorems: stream_independent_of_delivery (for every valid configuration, source and complete read script - any "
                   "fragment sizes, Pendings anywhere - the streaming chunker model emits the same chunks as a single read), "
                   "chunkAll_eq_specChunks (those chunks are exactly the pure rule Spec.specChunks: least length >= max(min,1) whose "
                   "trailing-window hash has all filter bits set, else max, else tail), rollsum/buzhash_is_window_function (closed forms "
                   "of both rolling hashes over the trailing window, repeat-skip optimisation included), chunks_tile, chunk_size_bounds. "
                   "No bound on sizes. Tied to the code by differential runs of the real chunker under scripted AsyncRead delivery: all "
                   "strings up to length 7 (9 thorough) over 3 letters x 81 small configs, every read fragmentation for short strings, random "
                   "run-laden inputs and configs, chunks larger than the 1 MiB refill buffer.",
        level_note="Trusted: Lean kernel; ring buffer modelled as FIFO; wrapping u32 arithmetic as BitVec 32; interpretation I1 (BuzHash "
                   "warm-up) stated in the spec; hypothesis Config.Valid (1<=window<=max, min<=max, 1<=bits<=30; fixed n>=1).",
        technique="Lean 4 proof (compositionality of next() in the buffered length, hash-state invariants, refinement to a pure spec) + differential correspondence",
        design_ref="DESIGN.md 5/C09",
        module="Bita.Props.C09",
        level="proof",
        required_theorems=["stream_independent_of_delivery", "chunkAll_eq_specChunks", "chunks_follow_rule", "chunks_tile",
                           "chunk_size_bounds", "rollsum_is_window_function", "buzhash_is_window_function"],
        suites=dict(quick=[("l1", "c09")], thorough=[("l1", "c09")]),
        rule="real Config::new_chunker on a scripted AsyncRead; compared: the (offset,length) list against the model run under the reads "
             "actually delivered (chunk) and against the pure rule (chunk-spec, the property's oracle); harness oracle: contiguity, bytes, "
             "coverage, min/max bounds; a case is distinct by its request line",
        trusted_base=LEAN_TB + ["tokio AsyncReadExt::read_buf / BytesMut capacity behaviour (observed: the harness logs what each read delivered)"],
        assumptions=["valid configuration (Config.Valid)", "I1: BuzHash consults no hash during its first `window` stream bytes"],
    ),
    "C10": dict(
        level_text="Lean 4 theorems: spec_resync (for every valid rolling configuration, prefixes P1,P2 and suffix S: a common chunk end at "
                   "least one window into S makes all later chunks identical), fixed_resync, and resync (the same about the streaming "
                   "chunker model under any two complete deliveries, via C09's theorems). Tied to the code through C09's correspondence "
                   "plus prefix-pair runs of the real chunker judged by the resynchronisation oracle (incl. the F5-shaped family).",
        level_note="Trusted: as C09.",
        technique="Lean 4 proof (window locality of the pure rule, lockstep induction over the common suffix) + differential correspondence",
        design_ref="DESIGN.md 5/C10",
        module="Bita.Props.C10",
        level="proof",
        required_theorems=["spec_resync", "fixed_resync", "resync"],
        suites=dict(quick=[("l1", "c10")], thorough=[("l1", "c10")]),
        rule="random (P1,P2,S) triples incl. empty prefixes and S starting with window non-zero bytes followed by >= window zeros; both "
             "streams chunked by the real chunker; oracle: identical continuation after the first common boundary >= window into S; "
             "both streams also compared with the model",
        trusted_base=LEAN_TB,
        assumptions=["valid configuration (Config.Valid); fixed-size: prefixes aligned modulo the size"],
    ),
    "C03": dict(
        level_text="Lean 4 theorems at the level of tilings (prior output = sequence O of keyed chunks, source = sequence N, any lengths, "
                   "duplicates, overlaps, cycles): planner_sound (strip + reorder_ops is a safe plan: every reusable chunk copied exactly "
                   "once from its first location to exactly its missing target offsets, no copy overwrites a still-needed chunk that was "
                   "not copied or buffered - via the explicit-stack DFS invariant, with termination inside the model's fuel proved), "
                   "executor_sound (executing any safe plan never fails and puts every reusable chunk in place), inplace_exact (reorder, "
                   "then feeding the missing chunks in any order among any other chunks, then resize = the source). Tied to the code by "
                   "differential runs of the real ChunkIndex::reorder_ops and CloneOutput::reorder_in_place on a logging in-memory file: "
                   "all pairs of tilings of <=3 chunks over 3 ids x 6 size tables (<=4 over 4 x 5 tables thorough) + random layouts; the "
                   "implementation's own plans are also judged by the independent safePlan specification and the final bytes by the source.",
        level_note="Trusted: Lean kernel; tiling level: equal keys have equal content (the property's collision clause); that scanning any byte "
                   "string yields a tiling is C09; HashMap iteration order is irrelevant where the model uses list order (sort by source "
                   "offset; checked by correspondence).",
        technique="Lean 4 proof (DFS invariant by induction over steps and trees, executor invariant over the plan, composition) + differential correspondence",
        design_ref="DESIGN.md 5/C03",
        module="Bita.Props.C03",
        level="proof",
        required_theorems=["planner_sound", "executor_sound", "inplace_exact"],
        suites=dict(quick=[("l1", "c03")], thorough=[("l1", "c03")]),
        rule="(sizes, prior tiling O, target tiling N) triples: exhaustive small scope + random perturbations (rotate/swap/drop/insert/"
             "duplicate) up to 40 chunks over up to 24 ids; compared: strip statistics, the exact op list, the exact read/write log, the "
             "file after reordering and the remaining index; oracles: safePlan(implementation ops) and final bytes == source",
        trusted_base=LEAN_TB,
        assumptions=["chunk sizes >= 1; equal keys (truncated hashes) mean equal bytes - otherwise a collision is exhibited"],
    ),
    "C13": dict(
        level_text="Lean 4 theorems write_log_exact / write_log_exact_plain: for every prior tiling O, source N and feed sequence, every write "
                   "of reordering + feeding is one source chunk's bytes at one of its source offsets, offsets are pairwise distinct, a location "
                   "already holding the right chunk is never written, and no write ends beyond the source length. Tied to the code by the C03 "
                   "correspondence (exact write logs compared) with a write-log oracle on the implementation.",
        level_note="Trusted: as C03; observed at the AsyncWrite interface of an in-memory output (the CLI level is observed by C16/C05 runs).",
        technique="Lean 4 proof (executor/feed write-log invariants) + differential correspondence of exact write logs",
        design_ref="DESIGN.md 5/C13",
        module="Bita.Props.C13",
        level="proof",
        required_theorems=["write_log_exact", "write_log_exact_plain"],
        suites=dict(quick=[("l1", "c03")], thorough=[("l1", "c03")]),
        rule="as C03; the write log of the real CloneOutput on a logging in-memory file is compared entry by entry with the model's and "
             "judged by the C13 oracle (source chunk at its offset, once, not in place, within the source length)",
        trusted_base=LEAN_TB,
        assumptions=["as C03"],
    ),
}
