"""Per-property configuration: Lean module, suites, trusted base, assumptions."""
import os

from . import core

LEAN_TB = [
    "Lean 4.33 kernel (leanchecker re-check in the thorough tier); axioms allowed: propext, Classical.choice, Quot.sound",
    "the hand-written Lean model is tied to /repo only by the correspondence runs recorded in this file "
    "(same requests to the real code and to the model's executable definitions, answers diffed)",
    "the Rust harness, its scripted transports, and the Python orchestrator",
]

# driver commands answered by an independent specification (Bita/Spec/*), not by the model of the code
SPEC_CMDS = {"chunk-spec", "http-spec", "runs", "plan-safe"}

NOT_APPLICABLE = {}

L1 = os.path.join(core.TARGET, "debug", "l1")


def run_extractor(pid):
    from . import extract
    return extract.run(pid)


def run_suite(pid, suite, seed, tier):
    kind = suite[0]
    if kind == "l1" and suite[1] == "opts":
        if core.CLIOPTS_BUILD_ERROR:
            raise core.Failure("the harness binary that compiles /repo/src/*.rs in (cliopts) does not build", core.CLIOPTS_BUILD_ERROR)
        return core.run_suite(os.path.join(core.TARGET, "debug", "cliopts"), ["opts", tier], seed)
    if kind == "l1":
        return core.run_suite(L1, [suite[1], tier], seed)
    if kind == "py":
        from . import l2
        return getattr(l2, suite[1])(seed, tier)
    raise core.Failure("unknown suite kind %r" % (kind,))


PROPS = {
    "C07": dict(
        level_text="Lean 4 theorem requests_are_maximal_runs: for every chunk list, retry budget and body fragmentation, the range "
                   "requests of the model of HttpReader::read_chunks are exactly the maximal runs of adjacent chunks (independent spec "
                   "maximalRuns, itself proved lossless, contiguous and maximal), one request per run with first-byte/last-byte bounds; "
                   "tied to the code by differential runs of the real HttpReader against a scripted HTTP server (every subset of small "
                   "archives exhaustively + random lists).  clone_over_http_requests_runs_of_missing_chunks composes it with C06 for a whole clone: "
                   "the wire of a successful clone from an honest server is the two header requests and then one request per maximal run of "
                   "adjacent missing chunks; tied to the code by whole CLI clones against a scripted server whose request log is compared "
                   "with the model's remote reader and with a chunker-free oracle (suite c07_wire).",
        level_note="Trusted: Lean kernel; hand-written model of http_reader.rs/http_range_request.rs tied by correspondence only; "
                   "reqwest/hyper not modelled; hypothesis: no transfer failure, chunk sizes >= 1, honest server.",
        technique="Lean 4 proof (refinement of the reader state machine to a run-level spec, induction over script and chunk list) + differential correspondence",
        design_ref="DESIGN.md 5/C07",
        module="Bita.Props.C07",
        level="proof",
        required_theorems=["requests_are_maximal_runs", "maximalRuns_spec", "runRequest_bounds",
                           "clone_over_http_requests_runs_of_missing_chunks"],
        suites=dict(quick=[("l1", "c07"), ("py", "c07_wire"), ("l1", "c08-http")], thorough=[("l1", "c07"), ("py", "c07_wire"), ("l1", "c08-http")]),
        needs_bita=True,
        rule="real HttpReader::read_chunks against a scripted loopback HTTP server: every non-empty subset of the "
             "descriptors of small random layouts (exhaustive per layout) plus random larger/unordered lists, random "
             "body fragmentation; compared: ordered (offset,size) of the Range requests, the raw Range header text "
             "against the independent maximal-run spec, and the delivered chunks; a case is distinct by its request line",
        trusted_base=LEAN_TB + ["reqwest/hyper deliver the body bytes the server wrote (not modelled)"],
        assumptions=["no transfer failures (C07's own hypothesis); chunk sizes >= 1; server returns the requested range"],
    ),
    "C08": dict(
        level_text="Lean 4 theorems: http_resume (the HTTP chunk reader model equals the run-level resume specification for every chunk "
                   "list, budget and failure script), http_items_exact_prefix (exact prefix, then at most one error), fetchRun_requests "
                   "(each re-request ends at the run end and starts at the first missing byte), io_reader_sound / io_reader_complete "
                   "(local reader exact under any short-read/Pending/error script). Tied to the code by differential runs against a "
                   "scripted HTTP server (every cut offset x budgets exhaustively for a two-chunk run, random scripts) and a scripted file.",
        level_note="Trusted: Lean kernel; hand-written models tied by correspondence; how reqwest/hyper surface refusals, cut bodies and "
                   "early ends is observed, not modelled (partial w.r.t. the HTTP stack); read_at retries from scratch (not a chunk transfer).",
        technique="Lean 4 proof (invariant of the reader state machine by induction on the failure script) + differential correspondence",
        design_ref="DESIGN.md 5/C08",
        module="Bita.Props.C08",
        level="proof",
        required_theorems=["http_resume", "http_items_exact_prefix", "fetchRun_requests", "io_reader_sound", "io_reader_complete", "read_at_exact", "http_read_at_requests", "http_surplus_irrelevant", "clone_completes_within_the_configured_retry_count"],
        suites=dict(quick=[("l1", "c08-http"), ("l1", "c08-io"), ("l1", "opts")], thorough=[("l1", "c08-http"), ("l1", "c08-io"), ("l1", "opts")]),
        rule="HTTP: one run of two chunks with every cut offset x budgets x one/two cuts x cut/clean-end (exhaustive) plus "
             "random chunk lists, budgets 0..3 and random scripts of refuse/cut/early-end/full; local: random range lists "
             "(adjacent, gapped, unordered, beyond EOF) under random scripts of short reads, Pending, errors and empty reads; "
             "compared: items, errors and Range log against the model and against the run-level spec",
        trusted_base=LEAN_TB + ["how reqwest/hyper surface a refused connection, a body cut short of Content-Length and a clean "
                                "early end (observed through the scripted server, not modelled)"],
        assumptions=["a server that, when it answers, returns the bytes of the requested range; chunk sizes >= 1",
                     "theorems are about the state-machine model; partial with respect to the HTTP stack itself"],
    ),
    "C09": dict(
        level_text="Lean 4 theorems: stream_independent_of_delivery (for every valid configuration, source and complete read script - any "
                   "fragment sizes, Pendings anywhere - the streaming chunker model emits the same chunks as a single read), "
                   "chunkAll_eq_specChunks (those chunks are exactly the pure rule Spec.specChunks: least length >= max(min,1) whose "
                   "trailing-window hash has all filter bits set, else max, else tail), rollsum/buzhash_is_window_function (closed forms "
                   "of both rolling hashes over the trailing window, repeat-skip optimisation included), chunks_tile, chunk_size_bounds. "
                   "No bound on sizes. Tied to the code by differential runs of the real chunker under scripted AsyncRead delivery: all "
                   "strings up to length 7 (9 thorough) over 3 letters x 81 small configs, every read fragmentation for short strings, random "
                   "run-laden inputs and configs, chunks larger than the 1 MiB refill buffer.",
        level_note="Trusted: Lean kernel; ring buffer modelled as FIFO; wrapping u32 arithmetic as BitVec 32; interpretation I1 (BuzHash "
                   "warm-up) stated in the spec; hypothesis Config.Valid (1<=window<=max, min<=max, 1<=bits<=30; fixed n>=1).",
        technique="Lean 4 proof (compositionality of next() in the buffered length, hash-state invariants, refinement to a pure spec) + differential correspondence",
        design_ref="DESIGN.md 5/C09",
        module="Bita.Props.C09",
        level="proof",
        required_theorems=["stream_independent_of_delivery", "chunkAll_eq_specChunks", "chunks_follow_rule", "chunks_tile",
                           "chunk_size_bounds", "rollsum_is_window_function", "buzhash_is_window_function"],
        suites=dict(quick=[("l1", "c09"), ("l1", "hash")], thorough=[("l1", "c09"), ("l1", "hash")]),
        rule="real Config::new_chunker on a scripted AsyncRead; compared: the (offset,length) list against the model run under the reads "
             "actually delivered (chunk) and against the pure rule (chunk-spec, the property's oracle); harness oracle: contiguity, bytes, "
             "coverage, min/max bounds; a case is distinct by its request line",
        trusted_base=LEAN_TB + ["tokio AsyncReadExt::read_buf / BytesMut capacity behaviour (observed: the harness logs what each read delivered)"],
        assumptions=["valid configuration (Config.Valid)", "I1: BuzHash consults no hash during its first `window` stream bytes"],
    ),
    "C10": dict(
        level_text="Lean 4 theorems: spec_resync (for every valid rolling configuration, prefixes P1,P2 and suffix S: a common chunk end at "
                   "least one window into S makes all later chunks identical), fixed_resync, and resync (the same about the streaming "
                   "chunker model under any two complete deliveries, via C09's theorems). Tied to the code through C09's correspondence "
                   "plus prefix-pair runs of the real chunker judged by the resynchronisation oracle (incl. the F5-shaped family).",
        level_note="Trusted: as C09.",
        technique="Lean 4 proof (window locality of the pure rule, lockstep induction over the common suffix) + differential correspondence",
        design_ref="DESIGN.md 5/C10",
        module="Bita.Props.C10",
        level="proof",
        required_theorems=["spec_resync", "fixed_resync", "resync", "resync_chunks_in_seed"],
        suites=dict(quick=[("l1", "c10"), ("l1", "hash")], thorough=[("l1", "c10"), ("l1", "hash")]),
        rule="random (P1,P2,S) triples incl. empty prefixes and S starting with window non-zero bytes followed by >= window zeros; both "
             "streams chunked by the real chunker; oracle: identical continuation after the first common boundary >= window into S; "
             "both streams also compared with the model",
        trusted_base=LEAN_TB,
        assumptions=["valid configuration (Config.Valid); fixed-size: prefixes aligned modulo the size"],
    ),
    "C03": dict(
        level_text="Lean 4 theorems at the level of tilings (prior output = sequence O of keyed chunks, source = sequence N, any lengths, "
                   "duplicates, overlaps, cycles): planner_sound (strip + reorder_ops is a safe plan: every reusable chunk copied exactly "
                   "once from its first location to exactly its missing target offsets, no copy overwrites a still-needed chunk that was "
                   "not copied or buffered - via the explicit-stack DFS invariant, with termination inside the model's fuel proved), "
                   "executor_sound (executing any safe plan never fails and puts every reusable chunk in place), inplace_exact (reorder, "
                   "then feeding the missing chunks in any order among any other chunks, then resize = the source); byte level: "
                   "inplace_clone_exact / inplace_clone_succeeds (Clone.run with --seed-output over ANY prior byte string - colliding junk "
                   "chunks included: success implies output = source, and an honest reader gives success - or a collision with a genuine "
                   "source chunk), clone_steps_as_modelled. Tied to the code by CLI in-place clones (with seeds, rotated, longer/shorter prior "
                   "outputs; write system calls observed) and by "
                   "differential runs of the real ChunkIndex::reorder_ops and CloneOutput::reorder_in_place on a logging in-memory file: "
                   "all pairs of tilings of <=3 chunks over 3 ids x 6 size tables (<=4 over 4 x 5 tables thorough) + random layouts; the "
                   "implementation's own plans are also judged by the independent safePlan specification and the final bytes by the source.",
        level_note="Trusted: Lean kernel; tiling level: equal keys have equal content (the property's collision clause); that scanning any byte "
                   "string yields a tiling is C09; HashMap iteration order is irrelevant where the model uses list order (sort by source "
                   "offset; checked by correspondence).",
        technique="Lean 4 proof (DFS invariant by induction over steps and trees, executor invariant over the plan, composition) + differential correspondence",
        design_ref="DESIGN.md 5/C03",
        module="Bita.Props.C03",
        level="proof",
        needs_bita=True,
        required_theorems=["planner_sound", "executor_sound", "inplace_exact", "inplace_clone_exact", "inplace_clone_succeeds", "clone_steps_as_modelled"],
        suites=dict(quick=[("l1", "c03"), ("py", "c13_writes"), ("py", "c02_seeds")], thorough=[("l1", "c03"), ("py", "c13_writes"), ("py", "c02_seeds")]),
        rule="(sizes, prior tiling O, target tiling N) triples: exhaustive small scope + random perturbations (rotate/swap/drop/insert/"
             "duplicate) up to 40 chunks over up to 24 ids; compared: strip statistics, the exact op list, the exact read/write log, the "
             "file after reordering and the remaining index; oracles: safePlan(implementation ops) and final bytes == source",
        trusted_base=LEAN_TB,
        assumptions=["chunk sizes >= 1; equal keys (truncated hashes) mean equal bytes - otherwise a collision is exhibited"],
    ),
    "C13": dict(
        level_text="Lean 4 theorems: clone_write_log_exact (byte level, the whole Clone.run - plain or in place, any seeds, any reader and codec "
                   "behaviour, whatever the result: every write is one source chunk's bytes at one of its source offsets, no offset twice, "
                   "nothing at or beyond the source length, nothing where the scan of the prior output found that chunk - or a collision with a "
                   "genuine source chunk is exhibited), lifted from the tiling-level write_log_exact / write_log_exact_plain; "
                   "clone_steps_as_modelled (the extracted step order is the one Clone.run transcribes). Tied to the code by (1) the C03 "
                   "correspondence of the real CloneOutput on a logging in-memory file (exact write logs) and (2) CLI clones under strace: every "
                   "write system call on the output (new, forced over longer, seeds, in place, rotated, block device; chunks larger than the "
                   "2 MiB one write call takes) judged by the C13 rules and compared chunk by chunk with the model's write log.",
        level_note="Trusted: as C03 + strace's report of lseek/write; write data is not captured (the final bytes and the offsets are).",
        technique="Lean 4 proof (executor/feed write-log invariants) + differential correspondence of exact write logs",
        design_ref="DESIGN.md 5/C13",
        module="Bita.Props.C13",
        level="proof",
        needs_bita=True,
        required_theorems=["write_log_exact", "write_log_exact_plain", "clone_write_log_exact", "clone_steps_as_modelled"],
        suites=dict(quick=[("l1", "c03"), ("py", "c13_writes")], thorough=[("l1", "c03"), ("py", "c13_writes")]),
        rule="as C03; the write log of the real CloneOutput on a logging in-memory file is compared entry by entry with the model's and "
             "judged by the C13 oracle (source chunk at its offset, once, not in place, within the source length); CLI: 26 (120 thorough) "
             "clones in 7 modes under strace, bursts of contiguous write calls must be whole source chunks at their offsets",
        trusted_base=LEAN_TB,
        assumptions=["as C03"],
    ),
    "C01": dict(
        level_text="Lean 4 theorems: compress_conforms (for every source, valid configuration, hash length, compression, metadata, both writers "
                   "and ANY round-tripping codec - hence also the stored-size==source-size corner - the produced bytes are a conforming archive "
                   "recording the true size and checksum), roundtrip (cloning them yields exactly the source, any seeds/prior output), "
                   "stages_preserve_order (buffered(n) emits in order under every completion schedule; every stage uses buffered - read from the "
                   "source), temp_file_complete (the CLI temp file is complete whatever the write-behind timing, given the flush found in the "
                   "source). Tied to the code by CLI runs (bita compress -> bita clone -> bita info, file and pipe input, all kinds of sources "
                   "incl. empty / 1 byte / duplicates), CLI archive == library archive == model archive (byte-exact digest), clone vs model. cli_accepted_options_are_valid: for every command line the option parser (model of src/cli.rs, Bita.Model.Options) accepts, the hypothesis OptsOK of these theorems holds iff the configuration is outside an exactly characterised misuse set; tied in process to cli::parse_opts (suite opts).",
        level_note="PARTIAL for schedules: order preservation of futures::buffered and tokio::fs::File's write-behind are modelled from their "
                   "source/documentation, not verified; tied by the extracted combinator/flush facts and repeated perturbed runs (C12). Codec "
                   "assumed to round-trip (CodecOK); size hypotheses: archive < 2^63 bytes, <= 2^32 chunks (indexes are stored as u32).",
        technique="Lean 4 proof (writer invariants + proto round-trip + reader completeness, composed; order-preservation invariant of buffered) + CLI differential runs",
        design_ref="DESIGN.md 5/C01",
        module="Bita.Props.C01",
        level="proof",
        needs_bita=True,
        required_theorems=["compress_conforms", "roundtrip", "cli_roundtrip", "roundtrip_over_http", "stages_preserve_order", "temp_file_complete", "lib_temp_file_flushed_fact", "cli_accepted_options_are_valid", "cli_roundtrip_from_the_command_line"],
        suites=dict(quick=[("py", "c01_roundtrip"), ("l1", "c08-http"), ("l1", "opts")], thorough=[("py", "c01_roundtrip"), ("py", "c12_determinism"), ("l1", "c08-http"), ("l1", "opts")]),
        rule="random sources (empty, 1 byte, zeros, constant, repetitive blocks, text, random; up to 20 kB) x random valid configs x hash "
             "lengths x none/brotli levels x buffer counts x file/stdin; oracles: clone output == source, info reports size and Blake2 "
             "checksum, temp file removed, CLI archive == library archive; model: archive digest (both writers) and clone result/output + l1 opts: cli::parse_opts / string_utils in process (sources of the bita crate compiled into the harness): size texts (69 numbers x 19 units + random), checksum texts, bita compress / bita clone option sets, raw --metadata-value arguments; answer ok <all parsed fields> / refused / panic vs Bita.Model.Options, with independent oracles (sizes fit 32 bits, pin bytes = what the text denotes, flags and seed list as given)",
        trusted_base=LEAN_TB + ["brotli (codec contract assumed)", "futures::buffered / tokio::fs::File semantics (Bita/Model/Schedule.lean)"],
        assumptions=["valid configuration (OptsOK)", "codec round-trips and never compresses a non-empty chunk to nothing", "no full-hash collision among source chunks"],
    ),
    "C02": dict(
        level_text="Lean 4 theorem seeds_irrelevant (= clone_sound): the archive opens and describes src; for every list of seed streams (any "
                   "number, order, content), every prior output, in place or not, any chunk reader: success implies output == source, or a "
                   "collision of the truncated hash with a genuine source chunk is exhibited; feeds_exact at the level of keyed chunks. Tied "
                   "to the code by CLI clones with 0-4 seeds of 7 kinds (+ stdin), plain/in-place/block device, local/HTTP, hash lengths "
                   "4..64: output == source, and result/output/fetched ranges compared with the model. cli_seeds_as_given: the seed list, stdin flag and in-place flag clone_cmd is handed are exactly what the command line gives (model of src/cli.rs, suite opts).",
        level_note="Trusted: as C03/C09 (tiling, chunking); truncated-hash lookup modelled as equality of truncated keys (tied by the CLI runs "
                   "with hash lengths 4 and 5 and by C03's index correspondence).",
        technique="Lean 4 proof (reduction of byte-level clone to the tiling-level feed theorem, collision reduction) + CLI differential runs",
        design_ref="DESIGN.md 5/C02",
        module="Bita.Props.C02",
        level="proof",
        needs_bita=True,
        required_theorems=["seeds_irrelevant", "feeds_exact", "clone_steps_as_modelled", "cli_seeds_as_given"],
        suites=dict(quick=[("py", "c02_seeds"), ("l1", "opts")], thorough=[("py", "c02_seeds"), ("l1", "opts")]),
        rule="CLI clone scenarios: seeds from {unrelated, the source, edited copies, empty, same size other content, reordered halves}, "
             "optional stdin seed, optional in-place prior (edited source or junk), block-device hook, local or scripted HTTP archive; "
             "oracle: output == source; model: result, output digest, exact fetched ranges + l1 opts: cli::parse_opts / string_utils in process (sources of the bita crate compiled into the harness): size texts (69 numbers x 19 units + random), checksum texts, bita compress / bita clone option sets, raw --metadata-value arguments; answer ok <all parsed fields> / refused / panic vs Bita.Model.Options, with independent oracles (sizes fit 32 bits, pin bytes = what the text denotes, flags and seed list as given)",
        trusted_base=LEAN_TB,
        assumptions=["the archive header is genuine (opens and describes the source)"],
    ),
    "C04": dict(
        level_text="Lean 4 theorems: clone_sound_against_any_reader (genuine header, ARBITRARY bytes for every chunk request, any codec behaviour, "
                   "any seeds: success implies output == source or a collision is exhibited), opened_header_is_self_consistent + header_tamper "
                   "(an altered archive that keeps the size field and opens has an unchanged header region, or exhibits a collision, or also "
                   "carries a recomputed checksum), pin_mismatch_refused + pinned_header_is_genuine (--verify-header, full byte comparison read "
                   "from the source), verify_output_sound. Tied to the code by CLI clones of mutated archives (bit flips in header and payload, "
                   "truncations, overwrites, payload swaps, trailing garbage; with seeds / --verify-output / --verify-header) and of misbehaving "
                   "HTTP servers; result and output compared with the model. verify_header_text_gate / verify_header_hex_accepted: the --verify-header TEXT (model of parse_hash_sum / hex_str_to_vec, Bita.Model.Options) denotes pair by pair exactly the bytes that are compared; tied in process to cli::parse_opts (suite opts).",
        level_note="The header checksum is a hash, not a MAC: 'any change inside the header is rejected' is proved in the only form that is true "
                   "(unchanged, or collision, or checksum rewritten consistently - excluded by the pin). Blake2 enters only through collision "
                   "reductions. hash length >= 8 per the property; theorems hold for 1..64.",
        technique="Lean 4 proof (verify-before-feed soundness, header self-consistency, collision reductions) + CLI mutation runs",
        design_ref="DESIGN.md 5/C04",
        module="Bita.Props.C04",
        level="proof",
        needs_bita=True,
        required_theorems=["clone_sound_against_any_reader", "clone_sound_against_any_server", "clone_steps_as_modelled", "header_tamper", "pin_mismatch_refused", "pinned_header_is_genuine", "verify_output_sound", "verify_output_sound_file", "pin_length_checked_fact",
                           "verify_header_text_gate", "verify_header_hex_accepted", "verify_header_pair_denotes"],
        suites=dict(quick=[("py", "c04_corruption"), ("l1", "fmt"), ("l1", "opts")], thorough=[("py", "c04_corruption"), ("l1", "fmt"), ("l1", "opts")]),
        rule="per archive (none/brotli, hash length 8/16/64): 120 sampled single-bit flips (every bit of tiny archives in thorough), "
             "truncations at structural offsets, random overwrites, payload swap, trailing garbage, x {plain, seed, --verify-output, pinned}; "
             "7 server misbehaviours; oracle: error or output == source, altered header never accepted; model: result + output digest + l1 opts: cli::parse_opts / string_utils in process (sources of the bita crate compiled into the harness): size texts (69 numbers x 19 units + random), checksum texts, bita compress / bita clone option sets, raw --metadata-value arguments; answer ok <all parsed fields> / refused / panic vs Bita.Model.Options, with independent oracles (sizes fit 32 bits, pin bytes = what the text denotes, flags and seed list as given)",
        trusted_base=LEAN_TB,
        assumptions=["archives produced by compress; corruption after creation; an attacker able to rewrite the checksum is out of scope unless --verify-header is used"],
    ),
    "C05": dict(
        level_text="Lean 4 theorems: rerun_completes (interrupt ANY clone run after any number of its writes and any byte prefix of the next: the "
                   "in-place re-run with an honest reader succeeds and yields the source, or a collision is exhibited - an instance of "
                   "clone_complete, which holds for every prior content, stated with the crash relation), rerun_completes_any_content (chains "
                   "of interruptions), failed_write_not_success / no_fault_success (tokio write-behind file model: whichever write fails, the "
                   "tail of clone_archive with the flush found in the source does not report success). Tied to the code by CLI runs under an "
                   "LD_PRELOAD shim: SIGKILL at (write k, t bytes) for every k (thorough) / sampled k, double crashes, then --seed-output "
                   "re-run == source; ENOSPC / torn write at first, middle, last writes must exit non-zero.",
        level_note="Crash = process interruption with writes applied in order (the property's wording); power-loss reordering not modelled "
                   "(irrelevant to T1, which holds for any content). tokio::fs::File's deferred error reporting is a model of a dependency "
                   "(Bita/Model/Schedule.lean), tied by the fault-injection runs.",
        technique="Lean 4 proof (in-place completeness for every prior content; invariant of the write-behind file model) + fault-injection runs",
        design_ref="DESIGN.md 5/C05",
        module="Bita.Props.C05",
        level="proof",
        needs_bita=True,
        required_theorems=["rerun_completes", "rerun_completes_any_content", "cli_rerun_completes", "failed_write_not_success", "no_fault_success", "clone_steps_as_modelled"],
        suites=dict(quick=[("py", "c05_crash"), ("l1", "c03")], thorough=[("py", "c05_crash"), ("l1", "c03")]),
        rule="scenarios (plain / in-place, with/without seed file, none/brotli) x crash points (write index x tear offsets {0, size, random, 1, "
             "size-1}) x optional second crash of the re-run; write faults fail/tear at first, middle, second-to-last, last write",
        trusted_base=LEAN_TB + ["tokio::fs::File write-behind semantics (modelled from the tokio source)", "the LD_PRELOAD shim (harness/shim/iofault.c)"],
        assumptions=["honest archive reader for the re-run; archive describes the source"],
    ),
    "C06": dict(
        level_text="Lean 4 theorem fetch_exact: a successful clone has asked the reader for the pre-header, the rest of the header and then, in one "
                   "read_chunks call, exactly the stored ranges of the descriptors (descriptor order, each once) whose key neither the scan of "
                   "the prior output (when seed) nor of any seed found - or a collision is exhibited; the cursor fact (file_size rewinds) is "
                   "read from the source. Tied to the code by CLI clones under strace (reads on the archive fd) and against a scripted HTTP "
                   "server (Range log): exact fetched ranges compared with the model for regular files, block device (hook) and HTTP.",
        level_note="The claim about the OS cursor of the block-device path rests on the extracted fact + CLI observation (the model scans the "
                   "whole prior content). Transfer retries are C08.",
        technique="Lean 4 proof (key-level characterisation of the clone index after reorder and seeds) + strace/Range-log correspondence",
        design_ref="DESIGN.md 5/C06",
        module="Bita.Props.C06",
        level="proof",
        needs_bita=True,
        required_theorems=["fetch_exact", "unchanged_tail_not_fetched", "scan_starts_at_zero_fact", "clone_steps_as_modelled"],
        suites=dict(quick=[("py", "c02_seeds"), ("l1", "c03"), ("l1", "c07"), ("l1", "c08-http"), ("l1", "c08-io")], thorough=[("py", "c02_seeds"), ("l1", "c03"), ("l1", "c07"), ("l1", "c08-http"), ("l1", "c08-io")]),
        rule="as C02; compared: the exact list of fetched (offset,size) ranges beyond the header; oracles: no range twice, nothing fetched when "
             "a seed is the source or the output already holds it (regular file and block device)",
        trusted_base=LEAN_TB + ["strace"],
        assumptions=["as C02"],
    ),
    "C11": dict(
        level_text="Lean 4 theorems: header_layout, proto_roundtrip (decode(encode d) = d for every well-formed dictionary; encoder and decoder "
                   "models are tied byte-/field-exactly to prost), writer_invariants (archive = header ++ stored chunks, ends at the last stored "
                   "chunk, offsets back-to-back, stored <= source size, valid rebuild indexes summing to the source size, options verbatim), "
                   "descriptors_unique_first_occurrence, reader_reports_verbatim, temp_file_complete. Tied to the code by archives of both real "
                   "writers judged by an INDEPENDENT Python decoder written from header.rs' table and the .proto (vlib/pyfmt.py), by bita info, "
                   "and by the prost encode/decode correspondence (random + wire-level crafted + mutated dictionaries). cli_requested_is_reported / cli_accepts_only_recordable_options / size_text_denotes / chunker_options_accepted_iff: the option texts of bita compress (model of src/cli.rs + string_utils.rs + FilterBits::from_size, Bita.Model.Options, option table regenerated from the source) denote exactly the recorded and reported values; tied in process to cli::parse_opts (suite opts).",
        level_note="The independent decoder lives in the correspondence (Python), the theorems are about the model's encoder/decoder pair, each "
                   "tied to prost separately. hinj: no two different source chunks with equal full hash.",
        technique="Lean 4 proof (varint/field/message round-trips, fold invariants of the writer) + independent-decoder conformance runs",
        design_ref="DESIGN.md 5/C11",
        module="Bita.Props.C11",
        level="proof",
        needs_bita=True,
        required_theorems=["header_layout", "proto_roundtrip", "writer_invariants", "descriptors_unique_first_occurrence", "reader_reports_verbatim", "lib_temp_file_flushed_fact", "cli_sizes_fit_u32_fact", "size_text_denotes", "chunker_options_accepted_iff",
                           "cli_accepts_only_recordable_options", "cli_requested_is_reported", "cli_metadata_map", "cli_options_with_metadata_ok", "metadata_reader_and_writer_maps_agree", "decoded_metadata_entries_rebuild_the_written_map"],
        suites=dict(quick=[("py", "c11_conformance"), ("l1", "fmt"), ("l1", "opts")], thorough=[("py", "c11_conformance"), ("l1", "fmt"), ("l1", "opts")]),
        rule="archives of both writers over random sources/configs/hash lengths/compression/metadata (incl. empty key, non-ASCII, long values): "
             "Python conformance checklist on the raw bytes; prost vs model: encode-dict byte-exact, decode-dict field-exact on encodings, "
             "crafted additions (unknown fields, groups, duplicates, unpacked, overlong varints, bad UTF-8) and mutations; header::build + l1 opts: cli::parse_opts / string_utils in process (sources of the bita crate compiled into the harness): size texts (69 numbers x 19 units + random), checksum texts, bita compress / bita clone option sets, raw --metadata-value arguments; answer ok <all parsed fields> / refused / panic vs Bita.Model.Options, with independent oracles (sizes fit 32 bits, pin bytes = what the text denotes, flags and seed list as given)",
        trusted_base=LEAN_TB + ["vlib/pyfmt.py (independent decoder)"],
        assumptions=["valid configuration"],
    ),
    "C12": dict(
        level_text="Lean 4 theorem archive_independent_of_schedule_and_delivery: with the read script, buffer count, both stage schedules and the "
                   "temp-file timing as explicit arguments, the archive equals the sequential model createArchive - a function of source and "
                   "options only (uses C09's delivery independence, buffered's order preservation, the temp-file flush). Tied to the code by "
                   "repeated CLI runs per input with buffered-chunks in {1,2,3,8,64,..}, 1 or 16 tokio workers, taskset to one CPU, file vs pipe "
                   "input, and the library writer under fragmented reads: all archives byte-identical (and equal to the model when uncompressed).",
        level_note="PARTIAL for schedules: as C01 - futures::buffered and tokio's blocking pool are modelled, not verified; the perturbed runs are "
                   "the tie. Hash-map iteration order plays no role in the writers (dedup by lookup only; metadata is a BTreeMap).",
        technique="Lean 4 proof (composition of delivery independence, order preservation and flush) + repeated perturbed CLI runs",
        design_ref="DESIGN.md 5/C12",
        module="Bita.Props.C12",
        level="proof",
        needs_bita=True,
        required_theorems=["archive_independent_of_schedule_and_delivery", "lib_temp_file_flushed_fact", "unordered_stage_emits_each_item_once", "unordered_stage_holds_at_most_n"],
        suites=dict(quick=[("py", "c12_determinism")], thorough=[("py", "c12_determinism")]),
        rule="per input 5 (8 thorough) CLI runs varying buffered-chunks, TOKIO_WORKER_THREADS, taskset, file/pipe + 1 library run with "
             "fragmented reads; oracle: one distinct archive per input",
        trusted_base=LEAN_TB + ["futures::buffered / tokio blocking pool (modelled)"],
        assumptions=["valid configuration; stages run to completion"],
    ),
    "C14": dict(
        level_text="Lean 4 theorems over an abstract POSIX file system, universally quantified: refused_invalid_archive, refused_pin_mismatch "
                   "(no output created, nothing changed, only read-only opens), refused_output_exists, refused_small_device, "
                   "compress_refused_output_exists - with the OpenOptions flag expressions and the order of the steps READ FROM THE SOURCE "
                   "(facts_as_expected). Tied to the code by the whole table run through the CLI: {absent, regular short/long, block device "
                   "big/small} x {none, -f, --seed-output} x {valid, corrupt header, not an archive, pin mismatch, pin prefix, pin ok} + compress "
                   "rows; content, length, existence before/after and exit status; each row compared with the model's verdict. cli_refused_output_exists / cli_pin_is_never_dropped: the refusals from the command-line texts (model of src/cli.rs, suite opts).",
        level_note="POSIX open semantics (O_CREAT|O_EXCL, O_TRUNC) are trusted; block device rows use the guarded is_block_dev hook.",
        technique="Lean 4 proof (case analysis over the flow with extracted flag expressions) + exhaustive CLI table",
        design_ref="DESIGN.md 5/C14",
        module="Bita.Props.C14",
        level="proof",
        needs_bita=True,
        required_theorems=["facts_as_expected", "pin_length_checked_fact", "refused_invalid_archive", "refused_pin_mismatch", "refused_output_exists", "refused_small_device", "compress_refused_output_exists", "cli_refused_output_exists", "cli_pin_is_never_dropped"],
        suites=dict(quick=[("py", "c14_refusals"), ("l1", "opts")], thorough=[("py", "c14_refusals"), ("l1", "opts")]),
        rule="the full table (90 clone rows + 4 compress rows per repetition, random pre-existing content); oracle: refused => non-zero exit, "
             "output byte-identical / still absent; proceeds => output == source (block device: prefix, length kept) + l1 opts: cli::parse_opts / string_utils in process (sources of the bita crate compiled into the harness): size texts (69 numbers x 19 units + random), checksum texts, bita compress / bita clone option sets, raw --metadata-value arguments; answer ok <all parsed fields> / refused / panic vs Bita.Model.Options, with independent oracles (sizes fit 32 bits, pin bytes = what the text denotes, flags and seed list as given)",
        trusted_base=LEAN_TB + ["POSIX open/ftruncate semantics", "the is_block_dev hook (cfg oll3_bita_verif)"],
        assumptions=["unique paths in the file system; archive path != output path"],
    ),
    "C15": dict(
        level_text="Lean 4 theorems about a model in which every Rust operation that can panic on untrusted input is an explicit branch: "
                   "tryInit_total (any reader keeping the read_at contract: success or reported error, no panic/abort branch), "
                   "accepted_archive_is_safe (banner arithmetic, source index, indexes/sizes/offsets/parameters of an accepted archive), "
                   "scan_is_bounded (valid parameters: chunks >= 1 byte tile the input under any delivery), server_bytes_safe (ANY server bytes, "
                   "any script: no underflow in the HTTP reader). Tied to the code by structure-aware mutation under a recomputed checksum "
                   "through the library (catch_unwind; open + banner arithmetic + index + bounded seed scan) and through the CLI (info / clone "
                   "/ clone --seed / clone --seed-output under a watchdog; exit 101/134/hang = violation), random bytes, bit flips, truncations, "
                   "declared sizes up to 2^64, misbehaving servers. Session 4: accepted_archive_chunker_allocation_bounded, accepted_archive_scan_buffer_bounded (buffer model SC.caps of the streaming chunker), decompression_buffer_never_exceeds_declared_size / decompression_exact_or_error (LimitedOutput as a sink, any writes). Session 5: dictionary_fields_bounded_by_bytes / unknown_group_skip_progresses (prost reader model: every field consumes at least its key byte, a skipped unknown group is left strictly behind, for ANY bytes) and dictionary_decode_fuel_irrelevant / unknown_group_skip_fuel_irrelevant (the fuel of the model never causes a refusal); l1 fmt now crafts groups nested around prost's recursion limit (1..150), groups closed by another field's end key, groups holding every wire type, truncated.",
        level_note="Panic-freedom OF THE MODEL; which operations can panic is the modeller's reading of the code, so the generators are the "
                   "important half. Partial w.r.t. memory exhaustion and anything inside prost/brotli/reqwest. Accepted RollSum configs with "
                   "window > max are outside Config.Valid (covered by the correspondence only). HttpReader::read_at buffers whatever body a "
                   "server sends for a header read (not bounded by the request) - recorded in DESIGN.md.",
        technique="Lean 4 proof (case analysis of the open path; reader invariants) + structure-aware mutation runs",
        design_ref="DESIGN.md 5/C15",
        module="Bita.Props.C15",
        level="proof",
        needs_bita=True,
        required_theorems=["tryInit_total", "accepted_archive_is_safe", "scan_is_bounded", "accepted_iff_valid", "accepted_archive_scan_is_bounded", "server_bytes_safe", "remote_open_total", "local_open_total", "local_header_read_allocation_bounded", "remote_header_read_buffering_bounded", "decoded_chunk_follows_declared_sizes", "accepted_archive_ranges_fit_u64", "remote_reader_sums_are_chunk_ends", "decoded_chunk_has_declared_size", "accepted_archive_chunker_allocation_bounded", "accepted_archive_scan_buffer_bounded", "chunker_wants_data_only_below_max", "decompression_buffer_never_exceeds_declared_size", "decompression_exact_or_error", "limited_decomp_is_the_sink", "dictionary_fields_bounded_by_bytes", "unknown_group_skip_progresses", "dictionary_decode_fuel_irrelevant", "unknown_group_skip_fuel_irrelevant"],
        suites=dict(quick=[("l1", "fmt"), ("py", "c15_cli"), ("l1", "c08-http"), ("l1", "c08-io")], thorough=[("l1", "fmt"), ("py", "c15_cli"), ("l1", "c08-http"), ("l1", "c08-io")]),
        rule="library: random/wild dictionaries under header::build, wire-level crafted dictionaries and declared-size/offset lies under a "
             "recomputed checksum, bit flips, truncations, random bytes; CLI: 22 field mutations x 4 commands + 13 server scripts; "
             "outcome classes compared with the model's tryInit/banner + l1 fmt: largest allocation request of Config::new_chunker for 36 configurations vs the model, peak request while scanning up to 13 MiB judged against 2*(max chunk + 1 MiB), 600 write sequences into the bounded decompression buffer (hook verif_limited_output) vs the sink model",
        trusted_base=LEAN_TB,
        assumptions=["read_at contract (exact size or error) - proved for both readers in C08"],
    ),
    "C16": dict(
        level_text="Lean 4 theorems over the file-system model: clone_ops_confined / clone_fs_confined (every operation of a clone, in every mode, "
                   "is a read-only open or concerns the output path; nothing removed; no other path changes), compress_leaves_only_archive "
                   "(initial file system + exactly the archive, temp created/written/re-opened/removed), facts_as_expected (File::open for "
                   "seeds and archive, no remove/rename/create-dir/copy call in clone_cmd.rs - read from the source). The statement about the "
                   "real process is the strace observation in every mode (plain, seeds, stdin seed, in-place, +seeds, verify, pin, http, "
                   "http+seed, force, block device; compress file/stdin/force): write-intent opens with their flags, unlink/rename/truncate, "
                   "directory listings before/after - compared with the model's operation log.",
        level_note="For this property the observation is the tie; the theorems add that no mode was forgotten in the model. Runtime opens "
                   "(/proc, /sys, /etc) are read-only and are excluded by intent, never by name.",
        technique="Lean 4 proof over an operation log + strace observation of every mode",
        design_ref="DESIGN.md 5/C16",
        module="Bita.Props.C16",
        level="proof",
        needs_bita=True,
        required_theorems=["facts_as_expected", "clone_ops_confined", "clone_fs_confined", "compress_leaves_only_archive"],
        suites=dict(quick=[("py", "c16_files")], thorough=[("py", "c16_files")]),
        rule="11 clone modes + 3 compress modes per scenario under strace -f; set of (path, intent) pairs, open flags of the output and the "
             "temp file, listings before/after",
        trusted_base=LEAN_TB + ["strace"],
        assumptions=["temp path not already present"],
    ),
    "C17": dict(
        level_text="Lean 4 theorem conforming_archive_clones: Conforms says only that the bytes open (either magic, any decodable dictionary), that "
                   "what opened describes src chunk by chunk, and that every descriptor's range holds stored bytes decoding to its chunk - "
                   "nothing about the writer's layout; every such archive is cloned to exactly the source (any seeds/prior output) or a collision "
                   "is exhibited; readers_exact_on_any_layout (C08). Tied to the code by archives from an INDEPENDENT Python encoder with the "
                   "layout freedoms (legacy magic, slack after the header, stored chunks permuted / descending / padded, trailing bytes, unknown "
                   "fields, shuffled field order, unpacked indexes, per-chunk raw-vs-brotli, hash lengths 4..64, zero chunks) cloned by the CLI "
                   "locally and over HTTP, bita info compared with the encoder's inputs, and the model's clone.",
        level_note="Conformance of the dictionary is defined through the protobuf decoder model (tied to prost by C11's correspondence).",
        technique="Lean 4 proof (reader completeness from a layout-free conformance predicate) + independent-encoder runs",
        design_ref="DESIGN.md 5/C17",
        module="Bita.Props.C17",
        level="proof",
        needs_bita=True,
        required_theorems=["conforming_archive_clones", "conforming_archive_clones_over_http", "conforming_archive_clones_through_io_reader", "cli_conforming_archive_clones", "conforming_archive_reports", "readers_exact_on_any_layout", "clone_steps_as_modelled", "unknown_dictionary_fields_are_ignored", "dictionary_decode_fuel_irrelevant"],
        suites=dict(quick=[("py", "c17_conforming")], thorough=[("py", "c17_conforming")]),
        rule="random sources cut arbitrarily (any cut is format-conforming), random valid parameters, independent encoder with random "
             "freedoms; oracle: CLI clone (local, HTTP, with seed) == source, info lines == encoder inputs; model: clone result/output",
        trusted_base=LEAN_TB + ["vlib/pyfmt.py (independent encoder)"],
        assumptions=["no pin; block device large enough"],
    ),
}
