"""Extractor: regenerates lean/Bita/Gen/{Consts,Facts}.lean from /repo's working tree on every run.

It is deliberately dumb (regular expressions over rustfmt-formatted source).  An item that
cannot be located is emitted as a value no theorem accepts (`none` / `Combinator.unknown` ...), and
is reported as a broken tie of the properties that depend on it - never silently defaulted.
"""
import os
import re

from . import core


def rd(rel):
    with open(os.path.join(core.REPO, rel)) as f:
        return f.read()


def write_if_changed(path, content):
    try:
        if open(path).read() == content:
            return False
    except FileNotFoundError:
        pass
    os.makedirs(os.path.dirname(path), exist_ok=True)
    with open(path, "w") as f:
        f.write(content)
    return True


def num(s):
    return int(s.replace("_", ""), 0)


def const_expr(s):
    """Evaluate a simple Rust constant expression of literals, * + and size_of::<u64>()."""
    s = s.replace("std::mem::size_of::<u64>()", "8")
    if not re.fullmatch(r"[0-9_xa-fA-F\s\*\+\(\)]+", s):
        return None
    try:
        return int(eval(re.sub(r"(?<=\d)_(?=\d)", "", s)))
    except Exception:
        return None


def extract_consts(missing):
    c = {}
    bz = rd("bitar/src/rolling_hash/buzhash.rs")
    m = re.search(r"const BUZHASH_SEED: u32 = (0x[0-9a-fA-F_]+);", bz)
    c["buzhashSeed"] = num(m.group(1)) if m else missing("BUZHASH_SEED")
    m = re.search(r"static BUZHASH_TABLE: &\[u32\] = &\[(.*?)\];", bz, re.S)
    tab = [num(x) for x in re.findall(r"0x[0-9a-fA-F_]+", m.group(1))] if m else []
    if len(tab) != 256:
        missing("BUZHASH_TABLE (256 entries)")
        tab = []
    c["buzhashTable"] = tab
    rs = rd("bitar/src/rolling_hash/rollsum.rs")
    m = re.search(r"const CHAR_OFFSET: u32 = (\d+);", rs)
    c["charOffset"] = int(m.group(1)) if m else missing("CHAR_OFFSET")
    sc = rd("bitar/src/chunker/streaming_chunker.rs")
    m = re.search(r"const REFILL_SIZE: usize = ([^;]+);", sc)
    c["refillSize"] = const_expr(m.group(1)) if m else missing("REFILL_SIZE")
    hd = rd("bitar/src/header.rs")
    m = re.search(r'pub const ARCHIVE_MAGIC: &\[u8; (\d+)\] = b"([^"]*)";', hd)
    if m:
        magic = bytes(m.group(2), "ascii").decode("unicode_escape").encode("latin1")
        c["archiveMagic"] = list(magic)
    else:
        c["archiveMagic"] = missing("ARCHIVE_MAGIC")
    m = re.search(r"pub const PRE_HEADER_SIZE: usize = ([^;]+);", hd)
    c["preHeaderSize"] = const_expr(m.group(1)) if m else missing("PRE_HEADER_SIZE")
    ar = rd("bitar/src/archive.rs")
    m = re.search(r'!= b"((?:\\0)?BITA1?[^"]*)"', ar)
    if m:
        c["legacyMagic"] = list(bytes(m.group(1), "ascii").decode("unicode_escape").encode("latin1"))
    else:
        c["legacyMagic"] = missing("legacy magic literal")
    hs = rd("bitar/src/hashsum.rs")
    m = re.search(r"pub const MAX_LEN: usize = (\d+);", hs)
    c["hashMaxLen"] = int(m.group(1)) if m else missing("HashSum::MAX_LEN")
    ct = rd("bitar/Cargo.toml")
    m = re.search(r'^version = "([^"]+)"', ct, re.M)
    c["pkgVersion"] = m.group(1) if m else missing("bitar version")
    # protobuf schema: .proto and generated .rs must agree
    c["proto"] = extract_proto(missing)
    return c


PROTO_MSGS = ["ChunkDescriptor", "ChunkerParameters", "ChunkCompression", "ChunkDictionary"]


def extract_proto(missing):
    proto = rd("bitar/proto/chunk_dictionary.proto")
    gen = rd("bitar/src/chunk_dictionary.rs")
    fields = {}
    for msg in PROTO_MSGS:
        m = re.search(r"message %s \{(.*?)\n\}" % msg, proto, re.S)
        if not m:
            missing("proto message " + msg)
            continue
        body = re.sub(r"enum \w+ \{.*?\}", "", m.group(1), flags=re.S)
        body = re.sub(r"//[^\n]*", "", body)
        fs = {}
        for fm in re.finditer(r"(repeated\s+)?(map<\s*\w+\s*,\s*\w+\s*>|[\w\.]+)\s+(\w+)\s*=\s*(\d+)\s*;", body):
            fs[fm.group(3)] = (int(fm.group(4)), (fm.group(1) or "").strip(), fm.group(2).replace(" ", ""))
        fields[msg] = fs
        # generated struct
        g = re.search(r"pub struct %s \{(.*?)\n\}" % msg, gen, re.S)
        if not g:
            missing("generated struct " + msg)
            continue
        gtags = {}
        for gm in re.finditer(r"#\[prost\(([^\]]*?)\)\]\s*pub (\w+):", g.group(1), re.S):
            t = re.search(r'tag\s*=\s*"(\d+)"', gm.group(1))
            if t:
                gtags[gm.group(2)] = int(t.group(1))
        for name, (tag, _, _) in fs.items():
            if gtags.get(name) != tag:
                missing("tag of %s.%s differs between .proto (%d) and chunk_dictionary.rs (%s)" % (msg, name, tag, gtags.get(name)))
    enums = {}
    for en in ["ChunkingAlgorithm", "CompressionType"]:
        m = re.search(r"enum %s \{(.*?)\}" % en, proto, re.S)
        if not m:
            missing("proto enum " + en)
            continue
        enums[en] = {k: int(v) for k, v in re.findall(r"(\w+)\s*=\s*(\d+)\s*;", m.group(1))}
    return dict(fields=fields, enums=enums)


def lean_list(xs):
    return "[" + ", ".join(str(x) for x in xs) + "]"


def gen_consts(c):
    p = c["proto"]

    def tag(msg, field):
        try:
            return p["fields"][msg][field][0]
        except KeyError:
            return 0

    def en(e, k):
        try:
            return p["enums"][e][k]
        except KeyError:
            return 999999

    lines = [
        "/- GENERATED by /verif/vlib/extract.py from /repo's working tree on every check run. Do not edit. -/",
        "namespace Bita.Gen",
        "",
        "/-- `BUZHASH_SEED` (rolling_hash/buzhash.rs) -/",
        "def buzhashSeed : Nat := %d" % (c["buzhashSeed"] or 0),
        "/-- `BUZHASH_TABLE` (rolling_hash/buzhash.rs), 256 entries -/",
        "def buzhashTable : Array Nat := #%s" % lean_list(c["buzhashTable"]),
        "/-- `CHAR_OFFSET` (rolling_hash/rollsum.rs) -/",
        "def charOffset : Nat := %d" % (c["charOffset"] or 0),
        "/-- `REFILL_SIZE` (chunker/streaming_chunker.rs) -/",
        "def refillSize : Nat := %d" % (c["refillSize"] or 0),
        "/-- `ARCHIVE_MAGIC` (header.rs) -/",
        "def archiveMagic : List Nat := %s" % lean_list(c["archiveMagic"] or []),
        "/-- the legacy magic accepted by `verify_pre_header` (archive.rs) -/",
        "def legacyMagic : List Nat := %s" % lean_list(c["legacyMagic"] or []),
        "/-- `PRE_HEADER_SIZE` (header.rs) -/",
        "def preHeaderSize : Nat := %d" % (c["preHeaderSize"] or 0),
        "/-- `HashSum::MAX_LEN` -/",
        "def hashMaxLen : Nat := %d" % (c["hashMaxLen"] or 0),
        "/-- crate version recorded as `application_version` -/",
        'def pkgVersion : String := "%s"' % (c["pkgVersion"] or "?"),
        "",
        "/-! protobuf field numbers (chunk_dictionary.proto, checked against chunk_dictionary.rs) -/",
    ]
    for msg, fields in [("ChunkDescriptor", ["checksum", "archive_size", "archive_offset", "source_size"]),
                        ("ChunkerParameters", ["chunk_filter_bits", "min_chunk_size", "max_chunk_size",
                                               "rolling_hash_window_size", "chunk_hash_length", "chunking_algorithm"]),
                        ("ChunkCompression", ["compression", "compression_level"]),
                        ("ChunkDictionary", ["application_version", "source_checksum", "source_total_size",
                                             "chunker_params", "chunk_compression", "rebuild_order",
                                             "chunk_descriptors", "metadata"])]:
        for f in fields:
            lines.append("def tag_%s_%s : Nat := %d" % (msg, f, tag(msg, f)))
    for e, ks in [("ChunkingAlgorithm", ["BUZHASH", "ROLLSUM", "FIXED_SIZE"]), ("CompressionType", ["NONE", "LZMA", "ZSTD", "BROTLI"])]:
        for k in ks:
            lines.append("def enum_%s_%s : Nat := %d" % (e, k, en(e, k)))
    lines += ["", "end Bita.Gen", ""]
    return "\n".join(lines)


_cache = {}

# which properties depend on which extracted item (regex on the item's description)
DEPENDS = [
    (r"BUZHASH|CHAR_OFFSET|REFILL", ["C09", "C10", "C01", "C02", "C03", "C05", "C06", "C12", "C15"]),
    (r"MAGIC|PRE_HEADER|MAX_LEN|magic", ["C04", "C11", "C15", "C17", "C01", "C02", "C05", "C06", "C14", "C16"]),
    (r"proto|tag of|generated struct|version", ["C11", "C15", "C17", "C04", "C01", "C12"]),
    (r"combinators", ["C01", "C12"]),
    (r"stored-bytes rule|raw rule", ["C01", "C11", "C12", "C17"]),
    (r"header pin", ["C04", "C14"]),
    (r"read_at|single_fail|decompress", ["C15"]),
    (r"default value|default window|unit arms|option value|range of --hash-length|max_level", ["C01", "C04", "C11", "C14"]),
    (r"open options|step |temp file|seed open|archive open", ["C14", "C16", "C11", "C05", "C06", "C01", "C02", "C03", "C04", "C13", "C17"]),
]


def run(pid):
    """Regenerate Gen files; returns a summary dict for the evidence file.  Raises core.Failure when
    an item the property depends on cannot be located."""
    problems = []

    def missing(what):
        problems.append(what)
        return None

    def relevant(what):
        """Which properties a missing item concerns (everything for items nobody classified)."""
        for pat, props_ in DEPENDS:
            if re.search(pat, what):
                return pid in props_ or pid in ("setup", "restore", "x")
        return True

    c = extract_consts(missing)
    changed = write_if_changed(os.path.join(core.LEAN, "Bita", "Gen", "Consts.lean"), gen_consts(c))
    from . import facts
    f = facts.extract(missing)
    changed2 = write_if_changed(os.path.join(core.LEAN, "Bita", "Gen", "Facts.lean"), facts.gen(f))
    summary = dict(consts=dict(buzhash_table_entries=len(c["buzhashTable"]), buzhash_seed=c["buzhashSeed"],
                               char_offset=c["charOffset"], refill_size=c["refillSize"],
                               archive_magic=c["archiveMagic"], legacy_magic=c["legacyMagic"],
                               pre_header_size=c["preHeaderSize"], pkg_version=c["pkgVersion"]),
                   facts=f, regenerated=bool(changed or changed2), not_found=problems)
    mine = [w for w in problems if relevant(w)]
    if mine:
        raise core.Failure("extractor could not locate: " + "; ".join(mine[:6]), "\n".join(mine))
    return summary
