"""Independent reader and writer of the bita archive format, written from the table in
bitar/src/header.rs and from bitar/proto/chunk_dictionary.proto - not from bitar's code and not
from the Lean model.  Used as the independent decoder of C11 and the independent encoder of C17/C15.
"""
import hashlib
import struct

MAGIC = b"BITA1\0"
LEGACY_MAGIC = b"\0BITA1"


# ------------------------------------------------------------------------------ protobuf wire format

def enc_varint(n):
    out = bytearray()
    n &= (1 << 64) - 1
    while True:
        b = n & 0x7F
        n >>= 7
        if n:
            out.append(b | 0x80)
        else:
            out.append(b)
            return bytes(out)


def dec_varint(buf, i):
    shift = 0
    val = 0
    for k in range(10):
        if i >= len(buf):
            raise ValueError("truncated varint")
        b = buf[i]
        i += 1
        val |= (b & 0x7F) << shift
        if not b & 0x80:
            return val & ((1 << 64) - 1), i
        shift += 7
    raise ValueError("varint too long")


def key(tag, wt):
    return enc_varint(tag << 3 | wt)


def f_varint(tag, v):
    return key(tag, 0) + enc_varint(v)


def f_bytes(tag, b):
    return key(tag, 2) + enc_varint(len(b)) + b


def parse_fields(buf):
    """[(tag, wire type, value)] with value int (varint), bytes (len-delimited / fixed)."""
    i = 0
    out = []
    while i < len(buf):
        k, i = dec_varint(buf, i)
        tag, wt = k >> 3, k & 7
        if tag == 0:
            raise ValueError("tag 0")
        if wt == 0:
            v, i = dec_varint(buf, i)
        elif wt == 1:
            v = buf[i:i + 8]
            if len(v) < 8:
                raise ValueError("truncated fixed64")
            i += 8
        elif wt == 2:
            n, i = dec_varint(buf, i)
            v = buf[i:i + n]
            if len(v) < n:
                raise ValueError("truncated bytes")
            i += n
        elif wt == 5:
            v = buf[i:i + 4]
            if len(v) < 4:
                raise ValueError("truncated fixed32")
            i += 4
        else:
            raise ValueError("unsupported wire type %d" % wt)
        out.append((tag, wt, v))
    return out


# ------------------------------------------------------------------------------ schema (from the .proto)

def decode_dictionary(buf):
    """Strict-but-tolerant reading of a ChunkDictionary per the .proto: unknown fields ignored,
    last scalar wins, repeated fields accumulate, packed or unpacked repeated uint32."""
    d = dict(application_version="", source_checksum=b"", source_total_size=0, chunker_params=None,
             chunk_compression=None, rebuild_order=[], chunk_descriptors=[], metadata={})
    for tag, wt, v in parse_fields(buf):
        if tag == 1 and wt == 2:
            d["application_version"] = v.decode("utf-8")
        elif tag == 2 and wt == 2:
            d["source_checksum"] = bytes(v)
        elif tag == 3 and wt == 0:
            d["source_total_size"] = v
        elif tag == 4 and wt == 2:
            p = d["chunker_params"] or dict(chunk_filter_bits=0, min_chunk_size=0, max_chunk_size=0,
                                            rolling_hash_window_size=0, chunk_hash_length=0, chunking_algorithm=0)
            names = {1: "chunk_filter_bits", 2: "min_chunk_size", 3: "max_chunk_size", 4: "rolling_hash_window_size",
                     5: "chunk_hash_length", 6: "chunking_algorithm"}
            for t2, w2, v2 in parse_fields(v):
                if t2 in names and w2 == 0:
                    p[names[t2]] = v2 & 0xFFFFFFFF
            d["chunker_params"] = p
        elif tag == 5 and wt == 2:
            c = d["chunk_compression"] or dict(compression=0, compression_level=0)
            for t2, w2, v2 in parse_fields(v):
                if t2 == 2 and w2 == 0:
                    c["compression"] = v2 & 0xFFFFFFFF
                elif t2 == 3 and w2 == 0:
                    c["compression_level"] = v2 & 0xFFFFFFFF
            d["chunk_compression"] = c
        elif tag == 6 and wt == 2:
            i = 0
            while i < len(v):
                x, i = dec_varint(v, i)
                d["rebuild_order"].append(x & 0xFFFFFFFF)
        elif tag == 6 and wt == 0:
            d["rebuild_order"].append(v & 0xFFFFFFFF)
        elif tag == 7 and wt == 2:
            c = dict(checksum=b"", archive_size=0, archive_offset=0, source_size=0)
            for t2, w2, v2 in parse_fields(v):
                if t2 == 1 and w2 == 2:
                    c["checksum"] = bytes(v2)
                elif t2 == 3 and w2 == 0:
                    c["archive_size"] = v2 & 0xFFFFFFFF
                elif t2 == 4 and w2 == 0:
                    c["archive_offset"] = v2
                elif t2 == 5 and w2 == 0:
                    c["source_size"] = v2 & 0xFFFFFFFF
            d["chunk_descriptors"].append(c)
        elif tag == 8 and wt == 2:
            k, val = "", b""
            for t2, w2, v2 in parse_fields(v):
                if t2 == 1 and w2 == 2:
                    k = v2.decode("utf-8")
                elif t2 == 2 and w2 == 2:
                    val = bytes(v2)
            d["metadata"][k] = val
    return d


def parse_archive(data):
    """Header per the table in header.rs.  Returns dict with the dictionary, offsets, raw pieces.
    Raises ValueError when the layout is violated."""
    if len(data) < 14:
        raise ValueError("shorter than a pre-header")
    magic = data[:6]
    if magic not in (MAGIC, LEGACY_MAGIC):
        raise ValueError("bad magic")
    (dsize,) = struct.unpack("<Q", data[6:14])
    end = 14 + dsize + 8 + 64
    if len(data) < end:
        raise ValueError("truncated header")
    dbytes = data[14:14 + dsize]
    (cdo,) = struct.unpack("<Q", data[14 + dsize:14 + dsize + 8])
    checksum = data[14 + dsize + 8:end]
    if hashlib.blake2b(data[:14 + dsize + 8]).digest() != checksum:
        raise ValueError("header checksum mismatch")
    return dict(magic=magic, dict_size=dsize, dictionary=decode_dictionary(dbytes), chunk_data_offset=cdo,
                header_size=end, header_checksum=checksum, dict_bytes=dbytes)


ALGO = {"B": 0, "R": 1, "F": 2}


def conformance_problems(data, src, cfg_tok, hash_len, compression_code, level, metadata, version=None):
    """C11's checklist on the raw bytes of an archive written by bita for source `src`.
    Returns a list of problems (empty = conforming)."""
    probs = []
    try:
        a = parse_archive(data)
    except Exception as e:  # noqa
        return ["unparsable: %s" % e]
    d = a["dictionary"]
    if a["magic"] != MAGIC:
        probs.append("writer used the legacy magic")
    if a["chunk_data_offset"] != a["header_size"]:
        probs.append("chunk data offset %d != header length %d" % (a["chunk_data_offset"], a["header_size"]))
    cds = d["chunk_descriptors"]
    stored_total = sum(c["archive_size"] for c in cds)
    if len(data) != a["header_size"] + stored_total:
        probs.append("file length %d != header %d + stored %d" % (len(data), a["header_size"], stored_total))
    off = 0
    for i, c in enumerate(cds):
        if c["archive_offset"] != off:
            probs.append("descriptor %d not back-to-back (offset %d, expected %d)" % (i, c["archive_offset"], off))
        off += c["archive_size"]
        if c["archive_size"] > c["source_size"]:
            probs.append("descriptor %d stored size exceeds source size" % i)
        if len(c["checksum"]) != hash_len:
            probs.append("descriptor %d checksum length %d != %d" % (i, len(c["checksum"]), hash_len))
    sums = [c["checksum"] for c in cds]
    if len(set(sums)) != len(sums):
        probs.append("descriptors not unique by hash")
    if any(i >= len(cds) for i in d["rebuild_order"]):
        probs.append("rebuild index out of range")
    else:
        if sum(cds[i]["source_size"] for i in d["rebuild_order"]) != len(src):
            probs.append("rebuild order sizes do not sum to the source size")
        # first occurrence order
        seen = []
        for i in d["rebuild_order"]:
            if i not in seen:
                seen.append(i)
        if seen != list(range(len(cds))):
            probs.append("descriptors not in order of first occurrence")
        # content: chunks hash to their checksums and rebuild the source (uncompressed chunks only)
        pos = 0
        for i in d["rebuild_order"]:
            c = cds[i]
            piece = src[pos:pos + c["source_size"]]
            if hashlib.blake2b(piece).digest()[:hash_len] != c["checksum"]:
                probs.append("chunk at source offset %d does not hash to its descriptor" % pos)
                break
            if c["archive_size"] == c["source_size"]:
                s = a["chunk_data_offset"] + c["archive_offset"]
                if data[s:s + c["archive_size"]] != piece:
                    probs.append("raw stored bytes of descriptor %d differ from the chunk" % i)
                    break
            pos += c["source_size"]
    if d["source_total_size"] != len(src):
        probs.append("recorded source size %d != %d" % (d["source_total_size"], len(src)))
    if d["source_checksum"] != hashlib.blake2b(src).digest():
        probs.append("recorded source checksum wrong")
    p = d["chunker_params"]
    if p is None:
        probs.append("no chunker parameters")
    else:
        t = cfg_tok.split(":")
        if p["chunking_algorithm"] != ALGO[t[0]]:
            probs.append("chunking algorithm not recorded verbatim")
        if t[0] == "F":
            want = (0, 0, int(t[1]), 0)
        else:
            want = (int(t[1]), int(t[2]), int(t[3]), int(t[4]))
        got = (p["chunk_filter_bits"], p["min_chunk_size"], p["max_chunk_size"], p["rolling_hash_window_size"])
        if got != want:
            probs.append("chunker parameters %r != requested %r" % (got, want))
        if p["chunk_hash_length"] != hash_len:
            probs.append("hash length not recorded verbatim")
    c = d["chunk_compression"]
    if c is None or c["compression"] != compression_code or (compression_code != 0 and c["compression_level"] != level):
        probs.append("compression not recorded verbatim: %r" % (c,))
    if d["metadata"] != metadata:
        probs.append("metadata not recorded verbatim")
    if version is not None and d["application_version"] != version:
        probs.append("application version %r != %r" % (d["application_version"], version))
    return probs


# ------------------------------------------------------------------------------ independent encoder (C17 / C15)

def encode_dictionary(d, rng=None, unknown_fields=False, unpacked_order=False, shuffle_fields=False, raw_extra=b""):
    """Encode a dictionary (same dict shape as decode_dictionary returns).  With the freedoms on, the
    result is a different but equally valid protobuf encoding of the same message."""
    parts = []
    if d.get("application_version"):
        parts.append(f_bytes(1, d["application_version"].encode("utf-8") if isinstance(d["application_version"], str) else d["application_version"]))
    if d.get("source_checksum"):
        parts.append(f_bytes(2, d["source_checksum"]))
    if d.get("source_total_size"):
        parts.append(f_varint(3, d["source_total_size"]))
    p = d.get("chunker_params")
    if p is not None:
        body = b""
        for tag, name in [(1, "chunk_filter_bits"), (2, "min_chunk_size"), (3, "max_chunk_size"),
                          (4, "rolling_hash_window_size"), (5, "chunk_hash_length"), (6, "chunking_algorithm")]:
            if p.get(name):
                v = p[name]
                if name == "chunking_algorithm" and v >= 1 << 31:
                    v |= ((1 << 64) - (1 << 32))
                body += f_varint(tag, v)
        if unknown_fields and rng:
            body += f_varint(15, rng.randrange(1 << 20)) + f_bytes(14, b"x")
        parts.append(f_bytes(4, body))
    c = d.get("chunk_compression")
    if c is not None:
        body = b""
        if c.get("compression"):
            v = c["compression"]
            if v >= 1 << 31:
                v |= ((1 << 64) - (1 << 32))
            body += f_varint(2, v)
        if c.get("compression_level"):
            body += f_varint(3, c["compression_level"])
        if unknown_fields:
            body += f_varint(1, 7)          # field 1 is not defined in ChunkCompression
        parts.append(f_bytes(5, body))
    if d.get("rebuild_order"):
        if unpacked_order:
            for x in d["rebuild_order"]:
                parts.append(f_varint(6, x))
        else:
            parts.append(f_bytes(6, b"".join(enc_varint(x) for x in d["rebuild_order"])))
    for cd in d.get("chunk_descriptors", []):
        body = b""
        if cd.get("checksum"):
            body += f_bytes(1, cd["checksum"])
        if unknown_fields:
            body += f_varint(2, 99)         # field 2 is reserved/unknown in ChunkDescriptor
        if cd.get("archive_size"):
            body += f_varint(3, cd["archive_size"])
        if cd.get("archive_offset"):
            body += f_varint(4, cd["archive_offset"])
        if cd.get("source_size"):
            body += f_varint(5, cd["source_size"])
        parts.append(f_bytes(7, body))
    md = d.get("metadata") or {}
    for k in (sorted(md) if not shuffle_fields else list(md)):
        body = b""
        kb = k.encode("utf-8") if isinstance(k, str) else k
        if kb:
            body += f_bytes(1, kb)
        if md[k]:
            body += f_bytes(2, md[k])
        parts.append(f_bytes(8, body))
    if unknown_fields:
        parts.append(f_varint(9, 12345))
        parts.append(f_bytes(1000, b"future extension"))
        parts.append(key(11, 1) + b"12345678")
        parts.append(key(12, 5) + b"1234")
    if shuffle_fields and rng:
        # repeated fields must keep their relative order; everything else may move
        rep = [x for x in parts if x[:1] in (key(6, 0), key(7, 2))]
        other = [x for x in parts if x not in rep]
        rng.shuffle(other)
        # interleave: put `other` pieces at random positions
        out = list(rep)
        for x in other:
            out.insert(rng.randrange(len(out) + 1), x)
        parts = out
    return b"".join(parts) + raw_extra


def build_header(dict_bytes, chunk_data_offset=None, magic=MAGIC, declared_size=None):
    pre = magic + struct.pack("<Q", len(dict_bytes) if declared_size is None else declared_size) + dict_bytes
    off = len(pre) + 8 + 64 if chunk_data_offset is None else chunk_data_offset
    body = pre + struct.pack("<Q", off & ((1 << 64) - 1))
    return body + hashlib.blake2b(body).digest()


def chunks_of(src, sizes):
    out, pos = [], 0
    for s in sizes:
        out.append(src[pos:pos + s])
        pos += s
    assert pos == len(src)
    return out


def encode_archive(src, chunk_sizes, cfg, hash_len, rng, freedoms=True, compress=None, compression_code=0, level=0,
                   metadata=None, version="9.9.9-independent"):
    """An archive of `src` cut into pieces of `chunk_sizes` (any cut is format-conforming: the
    chunker parameters only matter for seeds), with the layout freedoms the format allows.
    cfg = (algo code, bits, min, max, window).  compress(chunk) -> stored bytes or None (raw)."""
    pieces = chunks_of(src, chunk_sizes)
    uniq, order = [], []
    for p in pieces:
        hsum = hashlib.blake2b(p).digest()
        for i, (h2, _) in enumerate(uniq):
            if h2 == hsum:
                order.append(i)
                break
        else:
            uniq.append((hsum, p))
            order.append(len(uniq) - 1)
    stored = []
    for hsum, p in uniq:
        z = compress(p) if compress else None
        stored.append(z if (z is not None and len(z) != len(p)) else p)
    # placement of stored chunks in the data area: permuted, with gaps, possibly descending
    idx = list(range(len(uniq)))
    if freedoms:
        mode = rng.randrange(4)
        if mode == 1:
            idx.reverse()
        elif mode >= 2:
            rng.shuffle(idx)
    area = bytearray()
    offsets = {}
    for i in idx:
        if freedoms and rng.random() < 0.4:
            area += rng.randbytes(rng.randrange(1, 9))       # padding between chunks
        offsets[i] = len(area)
        area += stored[i]
    if freedoms and rng.random() < 0.3:
        area += rng.randbytes(rng.randrange(1, 20))           # trailing bytes
    algo, bits, mn, mx, w = cfg
    d = dict(application_version=version, source_checksum=hashlib.blake2b(src).digest(), source_total_size=len(src),
             chunker_params=dict(chunk_filter_bits=bits, min_chunk_size=mn, max_chunk_size=mx,
                                 rolling_hash_window_size=w, chunk_hash_length=hash_len, chunking_algorithm=algo),
             chunk_compression=dict(compression=compression_code, compression_level=level),
             rebuild_order=order,
             chunk_descriptors=[dict(checksum=uniq[i][0][:hash_len], archive_size=len(stored[i]),
                                     archive_offset=offsets[i], source_size=len(uniq[i][1])) for i in range(len(uniq))],
             metadata=metadata or {})
    slack = rng.randrange(0, 40) if freedoms and rng.random() < 0.5 else 0
    dbytes = encode_dictionary(d, rng, unknown_fields=freedoms and rng.random() < 0.6,
                               unpacked_order=freedoms and rng.random() < 0.3,
                               shuffle_fields=freedoms and rng.random() < 0.5)
    magic = LEGACY_MAGIC if (freedoms and rng.random() < 0.3) else MAGIC
    hdr_len = 14 + len(dbytes) + 72
    header = build_header(dbytes, chunk_data_offset=hdr_len + slack, magic=magic)
    return header + (rng.randbytes(slack) if slack else b"") + bytes(area), d
